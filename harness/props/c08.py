"""C08 — A trajectory is a pure function of script, engine kind and seed.

Theorems: lean/Strengths/Props/C08.lean (schedule independence, clean slate, seed only via the generator, Euler ignores
the generator, stored script keeps the seed) over Model/Sampler.lean + Model/Lifecycle.lean; inventories (members
assigned in Init, statements mentioning `rng`, the seed setter, the copies) regenerated from the sources.
Harness (real code, bitwise): each script is run once in a fresh process (reference), then again
* under random driving schedules (iterate / iterate_n(k) / run(0 ms) / run(1 ms) in any interleaving),
* on fresh and on reused engine objects, after arbitrary earlier simulations of other kinds and sizes in the same process,
* through the package's own driver simulate_script, and by re-running the script stored in the trajectory
  (including scripts constructed without a seed),
* with another seed (the Euler result must not change),
* on a re-used engine object with the loop driven by the polled status only (`while not is_complete(): …`,
  `while iterate_n(0): …`),
* after the caller edited its own RDScript object (seed, time step) following a run: the script stored in the earlier
  trajectory still reproduces it,
* after a persistence round trip of the script (rdscript_to_dict/from_dict, save/load, from the caller's script or from
  trajectory.script) with parameters of 15-17 significant digits (1/300, '12.3456789 ms', t_max = n*dt + 1.234e-8),
* scripts built WITHOUT a seed whose seed nobody reads before setup (the harness does not either),
* after the caller modified the returned trajectory's .system in place (then trajectory.script is re-run),
* one iterate_n(k) with k > 10^6 against the same iterations in two calls,
* in fresh interpreters with PYTHONHASHSEED 0..5 (Euler scripts whose rate constants carry all three unit components and
  whose units system differs from the default in space, time and quantity),
* while a set-up on ANOTHER engine object is refused mid-run (misspelt option, script without times and t_max),
* stochastic set-ups redistributing an odd number of >= 100-molecule entries, repeated / after one another in one process,
* tau-leap on grids with channel means >= 12 per step (tens of thousands of molecules per cell: the normal-approximation
  branch of std::poisson_distribution), repeated four times and after other such runs in the same process,
* tau-leap (grid and graph) whose channel means are >= 12 and bitwise CONSTANT from draw to draw and from one simulation to the
  next (a chemostatted substrate at the same amount in every cell / a zero-order source, product inert in the pure instances),
  under the same repetitions,
* step-wise API with the caller re-arming ITS script object (seed incl. None -> newly drawn, requested times, time step) between
  setup() and get_output(), at the end of the run or mid-run, scripts with a given seed and scripts built without one: the
  trajectory is the reference one, stores the seed it was simulated with, and its stored script reproduces it.
Oracle: bitwise equality (sha1 of t.tobytes() + data.tobytes()) with the reference.
Correspondence: op `lifecycle` — the model replays the schedule (run slices with the iteration counts read off the native
clock) and must yield the recorded times of the real trajectory.
"""
import json
import common
from common import frac, rstr, rparse, close
import life_common as lc

ID = "C08"
LEAN_TARGETS = ["Strengths.Props.C08"]
PROP_FILES = ["Strengths/Props/C08.lean"]
GEN_GROUPS = ["EngineCpp", "ScriptPy", "EngineLife"]
RULE = ("scripts: 3 engines x grid/graph x 4 policies x request styles x processing modes; per script 1 reference + schedules "
        "(random partitions into iterate / iterate_n(k) / run(0|1 ms)), reused / fresh objects after 0-3 earlier simulations of other "
        "scripts and engine kinds, simulate_script, re-run of trajectory.script, seed None, other seed; non-trivial when the run made "
        ">= 2 steps; distinct by (script, variant)")
ASSUMPTIONS = [
    "wall-clock dependence of run(ms) is exercised with 0 ms and 1 ms slices on runs of a few hundred iterations (slice boundaries "
    "fall at machine-dependent places); artificial CPU load is not generated",
    "bit-identity is observed on this machine / compiler (g++ -O1 -ffp-contract=off), not proved",
]
TRUSTED = ["life_child.py (sandboxed driver of the real engine)"]


def rand_schedule(rng):
    steps = []
    for _ in range(rng.randint(1, 8)):
        r = rng.random()
        if r < 0.3:
            steps.append(["iterate"])
        elif r < 0.6:
            steps.append(["iterate_n", rng.choice([1, 2, 3, 5, 17, 64])])
        elif r < 0.8:
            steps.append(["run", 0])
        else:
            steps.append(["run", 1])
    return steps


KINDS = ["schedule", "twice", "after_others", "simulate", "resim", "reused", "noseed", "poll_reused", "edit_resim", "refused_other", "outsys_resim", "units_reuse",
         "edit_live", "edit_live_noseed"]


def run(ctx):
    rng = ctx.rng
    n = ctx.n(25, 300)
    nsched = ctx.n(14, 30)
    entries = []
    for i in range(n):
        option = lc.OPTIONS[i % 3]
        S, info = lc.gen_script(rng, option, max_steps=200 if option != "gillespie" else 30, policy=lc.POLICIES[(i // 3) % 4],
                                space_kind=["grid", "graph"][(i // 12) % 2])
        if i % 6 in (1, 2):
            S["kw"]["rng_seed"] = 0          # seed 0 is a seed like any other
        eng = option
        if i % 8 == 3:
            # a legal LibRDEngine configuration other than the stock one: Euler working in molecules, a stochastic engine in the
            # script's quantity unit; "auto" processing must still mean none for Euler / redistribution for the stochastic ones
            eng = option + (":mol" if option == "euler" else ":nomol")
            if option == "euler":
                S["kw"]["init_state_processing"] = "auto"
                info["mode"] = "auto"
        entries.append({"S": S, "info": info, "option": option, "eng": eng, "idx": i})
    # tau-leap with large channel means (propensity * dt >= 12): A <-> B with 40000 molecules per cell
    for b in range(ctx.n(3, 12)):
        w, h = rng.choice([(2, 2), (2, 1), (3, 1), (1, 1)])
        ncell = w * h
        nA = rng.choice([40000, 25000, 60000])
        sysd = {"network": {"species": [{"label": "A", "density": 0, "D": rng.choice([0.0, 2.0])}, {"label": "B", "density": 0, "D": 0.5}],
                            "reactions": [{"eq": "A -> B", "k+": rng.choice([2.0, 1.0]), "k-": 1.0}], "environments": ["a"]},
                "space": {"type": "grid", "w": w, "h": h, "d": 1, "cell_volume": 1.0, "cell_env": [0] * ncell,
                          "boundary_conditions": ({"x": "periodical"} if rng.random() < 0.5 else {})},
                "state": [float(nA)] * ncell + [float(rng.choice([100, 30000]))] * ncell}
        nst = rng.randint(8, 30)
        S = {"system": sysd, "kw": {"t_sample": [0.0, 1e-3 * (nst // 2), 1e-3 * nst], "time_step": 1e-3, "sampling_policy": rng.choice(["on_t_sample", "on_iteration"]),
                                    "rng_seed": rng.randint(0, 2 ** 31 - 1), "init_state_processing": "none",
                                    "units_system": {"time": "s", "space": "µm", "quantity": "molecule"}}}
        info = {"option": "tauleap", "policy": S["kw"]["sampling_policy"], "space": "grid", "bigmean": True, "nsp": 2, "n": ncell}
        entries.append({"S": S, "info": info, "option": "tauleap", "eng": "tauleap", "idx": n + b, "bigmean": True})
    # tau-leap whose channel means are >= 12 AND bitwise CONSTANT from draw to draw (also from the last draw of one simulation to
    # the first draw of the next): a substrate held by a chemostat at the same amount in every cell, or a zero-order source in
    # cells of equal volume; the product neither reacts back nor diffuses in the "pure" instances (every Poisson draw of the whole
    # run has one and the same mean), later instances add a back reaction / a diffusing product (two alternating means)
    for b in range(ctx.n(4, 12)):
        kind_sp = ["grid", "graph"][b % 2]
        source = ["chemostat", "zero_order"][(b // 2) % 2]
        pure = b < 4 or rng.random() < 0.5
        ncell = rng.choice([1, 1, 2, 3])
        if kind_sp == "grid":
            space = {"type": "grid", "w": ncell, "h": 1, "d": 1, "cell_volume": 1.0, "cell_env": [0] * ncell, "boundary_conditions": {}}
        else:
            space = {"type": "graph", "nodes": [{"volume": 1.0, "environment": 0} for _ in range(ncell)],
                     "edges": [{"nodes": [i, i + 1], "surface": 1.0, "distance": 1.0} for i in range(ncell - 1)]}
        dt = rng.choice([0.01, 1e-3, 0.0078125])
        mean = rng.choice([12.5, 20.0, 50.0, 130.0, 700.0])
        kback = 0.0 if pure else rng.choice([0.0, 0.5])
        DB = 0.0 if pure else rng.choice([0.0, 0.5])
        if source == "chemostat":
            kf = rng.choice([1.0, 2.0, 0.5])
            nA = float(round(mean / (kf * dt)))
            species = [{"label": "A", "density": 0, "D": 0.0, "chstt": True}, {"label": "B", "density": 0, "D": DB}]
            reactions = [{"eq": "A -> B", "k+": kf, "k-": kback}]
            state = [nA] * ncell + [float(rng.choice([0, 7]))] * ncell
        else:
            species = [{"label": "A", "density": 0, "D": 0.0}, {"label": "B", "density": 0, "D": DB}]
            reactions = [{"eq": " -> B", "k+": mean / dt, "k-": kback}]
            state = [float(rng.choice([0, 3]))] * ncell + [float(rng.choice([0, 7]))] * ncell
        sysd = {"network": {"species": species, "reactions": reactions, "environments": ["a"]}, "space": space, "state": state}
        nst = rng.randint(9, 45)
        S = {"system": sysd, "kw": {"t_sample": [0.0, dt * (nst // 2), dt * nst], "time_step": dt, "sampling_policy": rng.choice(["on_t_sample", "on_iteration"]),
                                    "rng_seed": rng.randint(0, 2 ** 31 - 1), "init_state_processing": "none",
                                    "units_system": {"time": "s", "space": "µm", "quantity": "molecule"}}}
        info = {"option": "tauleap", "policy": S["kw"]["sampling_policy"], "space": kind_sp, "constmean": source, "nsp": 2, "n": ncell, "mode": "none"}
        entries.append({"S": S, "info": info, "option": "tauleap", "eng": "tauleap", "idx": n + 600 + b, "bigmean": True, "constmean": True})
    # stochastic set-ups with redistribution ("redist" / "auto") of an ODD number of entries with >= 100 molecules (the normal
    # approximation of the redistribution draws deviates in pairs): repeated and run after one another in one process
    for b in range(ctx.n(3, 9)):
        option = ["tauleap", "gillespie"][b % 2]
        kind_sp = ["grid", "graph"][(b // 2) % 2]
        ncell = rng.choice([1, 3])
        if kind_sp == "grid":
            space = {"type": "grid", "w": ncell, "h": 1, "d": 1, "cell_volume": 1.0, "cell_env": [0] * ncell, "boundary_conditions": {}}
        else:
            space = {"type": "graph", "nodes": [{"volume": 1.0, "environment": 0} for _ in range(ncell)],
                     "edges": [{"nodes": [i, i + 1], "surface": 1.0, "distance": 1.0} for i in range(ncell - 1)]}
        sysd = {"network": {"species": [{"label": "A", "density": 0, "D": 0.5}, {"label": "B", "density": 0, "D": 0.0}],
                            "reactions": [{"eq": "A -> B", "k+": 1.0, "k-": 0.5}], "environments": ["a"]},
                "space": space, "state": [float(rng.choice([150, 1000, 101.5, 4000])) for _ in range(ncell)] + [float(rng.choice([0, 3, 40]))] * ncell}
        nst = rng.randint(6, 20)
        S = {"system": sysd, "kw": {"t_sample": [0.0, 1e-3 * nst], "time_step": 1e-3, "t_max": 1e-3 * nst if option == "tauleap" else 2e-4,
                                    "sampling_policy": "on_iteration", "rng_seed": rng.randint(0, 2 ** 31 - 1),
                                    "init_state_processing": rng.choice(["redist", "auto"])}}
        info = {"option": option, "policy": "on_iteration", "space": kind_sp, "bigstate": True, "nsp": 2, "n": ncell, "mode": S["kw"]["init_state_processing"]}
        entries.append({"S": S, "info": info, "option": option, "eng": option, "idx": n + 300 + b, "bigmean": True})
    # a rate constant with all three unit components (2nd / 0th order), script units differing from the reaction's in space,
    # time AND quantity: the conversion must not depend on the interpreter (string hashing differs between processes)
    for b in range(ctx.n(2, 6)):
        S, info = lc.gen_script(rng, "euler", max_steps=40, policy="on_iteration", units=False, space_kind=["grid", "graph"][b % 2], mode="none")
        S["system"]["network"]["species"] = [{"label": l, "density": 0, "D": 0} for l in ("A", "B", "C")][:max(info["nsp"], 2)]
        labels = [sp["label"] for sp in S["system"]["network"]["species"]]
        S["system"]["network"]["reactions"] = [{"eq": "A + B -> " + ("C" if "C" in labels else ""), "k+": rng.choice([0.37, 1.3, 0.071]), "k-": 0.013},
                                               {"eq": "2 A -> B", "k+": 0.21}]
        ncell = info["n"]
        S["system"]["state"] = [float(rng.choice([3.7, 11.3, 0.9, 25.1])) for _ in range(len(labels) * ncell)]
        info["nsp"] = len(labels)
        S["kw"]["units_system"] = {"space": rng.choice(["nm", "mm", "dm"]), "time": rng.choice(["ms", "min", "µs"]), "quantity": rng.choice(["mol", "µmol", "nmol"])}
        S["kw"].pop("__from_dict__", None)
        entries.append({"S": S, "info": info, "option": "euler", "eng": "euler", "idx": n + 400 + b, "conv3": True})
    # Euler decay followed into the SUBNORMAL range (k dt = 0.1, > 6900 steps): run()-driven vs iterate()-driven, bit for bit; one on a
    # grid and one on a graph, each also run AFTER Euler simulations on the other kind of space in the same process (a simulation
    # that leaves the thread's floating-point control state changed — flush-to-zero, rounding mode — shows only in such values)
    for b in range(2):
        if b == 0:
            space = {"type": "grid", "w": 1, "h": 1, "d": 1, "cell_volume": 1.0, "cell_env": [0], "boundary_conditions": {}}
            state, ncell = [1.0, 0.0], 1
        else:
            space = {"type": "graph", "nodes": [{"volume": 1.0, "environment": 0} for _ in range(2)],
                     "edges": [{"nodes": [0, 1], "surface": 1.0, "distance": 1.0}]}
            state, ncell = [1.0, 0.75, 0.0, 0.0], 2
        sysd = {"network": {"species": [{"label": "A", "density": 0, "D": 0}, {"label": "B", "density": 0, "D": 0}],
                            "reactions": [{"eq": "A -> B", "k+": 1.0}], "environments": ["a"]},
                "space": space, "state": state}
        S = {"system": sysd, "kw": {"t_sample": [0.0], "time_step": 0.1, "t_max": 0.1 * rng.randint(7150, 7400), "sampling_policy": "on_iteration",
                                    "rng_seed": 1, "init_state_processing": "none"}}
        info = {"option": "euler", "policy": "on_iteration", "space": space["type"], "nsp": 2, "n": ncell, "mode": "none", "subnormal": True}
        entries.append({"S": S, "info": info, "option": "euler", "eng": "euler", "idx": n + 500 + b, "subnormal": True})
    # parameters with more than 6 significant digits (15-17), for the persistence routes (dict / file / trajectory.script)
    for b in range(ctx.n(4, 16)):
        option = lc.OPTIONS[b % 3]
        S, info = lc.gen_script(rng, option, max_steps=60 if option != "gillespie" else 20, policy=lc.POLICIES[b % 3], units=False, dyadic=False)
        base = rng.choice([1.0 / 300.0, 0.0123456789, 1.0 / 70.0, 0.010000001234])
        nst = rng.randint(5, 40)
        if b % 2 == 0:
            S["kw"]["time_step"] = base
            S["kw"]["t_max"] = base * nst + 1.234e-8
            S["kw"]["sampling_interval"] = base * 3 + 1e-9
        else:
            S["kw"]["time_step"] = "%r ms" % (base * 1000.0)
            S["kw"]["t_max"] = "%r ms" % ((base * nst + 1.234e-8) * 1000.0)
            S["kw"]["sampling_interval"] = "%r ms" % ((base * 3 + 1e-9) * 1000.0)
        S["kw"]["t_sample"] = [0.0, base * (nst // 2) + 1e-9, base * nst]
        S["kw"].pop("__from_dict__", None)
        info["digits"] = True
        entries.append({"S": S, "info": info, "option": option, "eng": option, "idx": n + 200 + b, "digits": True})
    # Euler engines built with requires_molecules=True on spaces with several cells, non-integer amounts, "auto" processing
    for b in range(ctx.n(3, 12)):
        S, info = lc.gen_script(rng, "euler", max_steps=40, mode="auto", policy=rng.choice(["on_iteration", "on_t_sample", "on_interval"]),
                                space_kind=["grid", "graph"][b % 2], units=(b % 3 == 2))
        entries.append({"S": S, "info": info, "option": "euler", "eng": "euler:mol", "idx": n + 100 + b})
    # ---- references: fresh process, one iteration at a time (also yields the clock for the model)
    jobs = []
    for e in entries:
        jobs.append({"id": "ref%d" % e["idx"], "engines": [e["eng"]], "scripts": [e["S"]], "timeout": 20,
                     "calls": [{"obj": 0, "call": "setup", "script": 0, "peek": True},
                               {"obj": 0, "call": "drive", "max": 3000 if not e.get("subnormal") else 9000, "state": False, "size": 0, "samples": [], "past_end": 0},
                               {"obj": 0, "call": "get_output", "full": True}, {"obj": 0, "call": "finalize"}]})
    res = lc.run_jobs(jobs, kind="plain", chunk=1, parallel=ctx.n(8, 8), stall=ctx.n(10, 30))
    good = []
    for e, j in zip(entries, jobs):
        r = res[j["id"]]
        if r["status"] != "ok" or any("raised" in x for x in r["results"]):
            if r["status"] != "ok":
                ctx.violation("reference-run:%s" % r["status"].split(":")[0], "the reference run did not return (%s at call %s)" % (r["status"], r["at"]),
                              {"job": {k: j[k] for k in ("id", "engines", "scripts", "calls")}})
            ctx.count("reference_unusable")
            continue
        drive = r["results"][1]["ret"]
        if drive["U"] and drive["U"][-1]:
            ctx.count("reference_too_long")
            continue
        want_seed = e["S"]["kw"].get("rng_seed")
        got_seed = r["results"][0]["meta"].get("seed")
        if want_seed is not None and got_seed != want_seed:
            ctx.violation("seed-type", "a seed given as %s%s is not the seed of the script: rng_seed = %r, given %r" % (
                e["info"].get("seed_as", "int"), " through rdscript_from_dict (key \"seed\")" if e["info"].get("from_dict") else "", got_seed, want_seed),
                {"job": {k: j[k] for k in ("id", "engines", "scripts", "calls")}, "kind": "seed-type", "want_seed": want_seed}, impl=got_seed, expected=want_seed)
        ctx.count("seed_as_%s%s" % (e["info"].get("seed_as", "int"), "_from_dict" if e["info"].get("from_dict") else ""))
        ctx.count("engine_" + e["eng"])
        e["ref"] = {"hash": r["results"][2]["ret"]["hash"], "out": r["results"][2]["ret"], "meta": r["results"][0]["meta"],
                    "T": [r["results"][0]["T"]] + drive["T"], "U": drive["U"]}
        good.append(e)
    if not good:
        return
    # ---- variants
    jobs = []
    for e in good:
        others = [o for o in good if o is not e]
        for v in range(nsched):
            kind = KINDS[v] if v < len(KINDS) else rng.choice(["schedule", "after_others", "reused", "simulate", "twice", "poll_reused", "edit_resim"])
            if e.get("subnormal"):
                kind = "schedule" if v % 2 == 0 else "after_others"
                others = [o for o in good if o is not e and o["eng"] == "euler" and o["info"].get("space") != e["info"].get("space")] or others
            if e.get("digits"):
                kind = ["persist:dict", "persist:file", "persist:traj_dict", "persist:traj_file", "noseed", "schedule", "edit_live"][v % 7]
            if e.get("bigmean"):
                kind = ["repeat4", "after_others", "reused", "twice", "resim", "poll_reused"][v % 6]
                others = [o for o in good if o is not e and o.get("bigmean")] or others
            calls, scripts, engines = [], [e["S"]], [e["eng"]]
            sched = rand_schedule(rng)
            if rng.random() < 0.5:
                sched.append(["iterate_n", rng.choice([64, 1000])])      # repeated until completion: overshoots the completing step
            if e.get("subnormal"):
                sched = [[["run", 1]], [["run", 0]], [["run", 5]], [["iterate_n", 997]], [["run", 1], ["iterate_n", 5000], ["run", 2]]][v % 5]
            main_obj = 0
            if kind in ("after_others", "reused") and others:
                # earlier simulations of other scripts (other sizes, policies; possibly another engine kind on another object)
                for o in rng.sample(others, min(len(others), rng.randint(1, 3))):
                    scripts.append(o["S"])
                    si = len(scripts) - 1
                    if o["eng"] == e["eng"] and kind == "reused":
                        ob = 0          # the very engine object that will run the script afterwards
                    else:
                        engines.append(o["eng"])
                        ob = len(engines) - 1
                    calls.append({"obj": ob, "call": "setup", "script": si})
                    calls.append({"obj": ob, "call": "schedule", "steps": rand_schedule(rng), "max": rng.choice([3, 50, 100000])})
                    if rng.random() < 0.7:
                        calls.append({"obj": ob, "call": "get_output", "full": False})
                    calls.append({"obj": ob, "call": "finalize"})
                if kind == "after_others":
                    calls.append({"obj": 0, "call": "new"})
            if kind == "simulate":
                calls.append({"obj": main_obj, "call": "simulate", "script": 0})
            elif kind == "resim":
                calls += [{"obj": 0, "call": "simulate", "script": 0}, {"obj": 0, "call": "new"}, {"obj": 0, "call": "resim"}]
            elif kind == "noseed":
                S2 = json.loads(json.dumps(e["S"]))
                S2["kw"]["rng_seed"] = None
                scripts.append(S2)
                calls += [{"obj": 0, "call": "simulate", "script": len(scripts) - 1}, {"obj": 0, "call": "new"}, {"obj": 0, "call": "resim"}]
            elif kind == "poll_reused":
                # the engine object ran a simulation to completion before; the new loop is driven by the polled status only
                how = rng.choice(["is_complete", "iterate_n0"])
                step = rng.choice([["iterate"], ["iterate_n", rng.choice([1, 3, 64])], ["run", 0], ["run", 1]])
                calls += [{"obj": 0, "call": "setup", "script": 0}, {"obj": 0, "call": "schedule", "steps": sched, "max": 100000},
                          {"obj": 0, "call": "finalize"},
                          {"obj": 0, "call": "setup", "script": 0, "peek": True},
                          {"obj": 0, "call": "poll", "how": how, "step": step, "max": 100000},
                          {"obj": 0, "call": "get_output", "full": True}, {"obj": 0, "call": "finalize"}]
            elif kind == "units_reuse":
                # ONE engine object runs the script, then the same script (same network) under another script units system; the
                # second run equals the run of that second script on a fresh engine object
                S5 = json.loads(json.dumps(e["S"]))
                if "units_system" in S5["kw"]:
                    us = dict(S5["kw"]["units_system"])
                    us["time"] = "ms" if us.get("time") != "ms" else "min"
                    us["space"] = "nm" if us.get("space") != "nm" else "µm"
                else:
                    us = {"time": "ms", "space": "nm", "quantity": "molecule"}
                S5["kw"]["units_system"] = us
                S5["kw"].pop("__from_dict__", None)
                scripts.append(S5)
                engines.append(e["eng"])
                one = [["iterate_n", 100000]]
                calls += [{"obj": 0, "call": "setup", "script": 0}, {"obj": 0, "call": "schedule", "steps": sched, "max": 100000}, {"obj": 0, "call": "finalize"},
                          {"obj": 0, "call": "setup", "script": 1}, {"obj": 0, "call": "schedule", "steps": one, "max": 3}, {"obj": 0, "call": "get_output", "full": True},
                          {"obj": 0, "call": "finalize"},
                          {"obj": 1, "call": "setup", "script": 1}, {"obj": 1, "call": "schedule", "steps": one, "max": 3}, {"obj": 1, "call": "get_output", "full": True},
                          {"obj": 1, "call": "finalize"}]
            elif kind == "outsys_resim":
                # the caller modifies the trajectory object it was given (its .system, in place), then re-runs its .script
                calls += [{"obj": 0, "call": "simulate", "script": 0},
                          {"obj": 0, "call": "mutate_out", "what": "system_state"},
                          {"obj": 0, "call": "new"}, {"obj": 0, "call": "resim"}]
            elif kind == "refused_other":
                # mid-run, a set-up that must be REFUSED is attempted on another engine object of the same library (misspelt
                # option, or a script without requested times and without t_max); the caller catches it and goes on
                if rng.random() < 0.5:
                    engines.append(rng.choice(["tau-leap", "Euler", "gilespie"]))
                    bad_script = 0
                else:
                    engines.append(rng.choice(lc.OPTIONS))
                    S4 = json.loads(json.dumps(e["S"]))
                    S4["kw"]["t_sample"] = []
                    S4["kw"].pop("t_max", None)
                    S4["kw"].pop("__tsample_first__", None)
                    scripts.append(S4)
                    bad_script = len(scripts) - 1
                calls += [{"obj": 0, "call": "setup", "script": 0, "peek": True}, {"obj": 0, "call": "iterate_n", "n": rng.choice([1, 2, 7])},
                          {"obj": 1, "call": "setup", "script": bad_script, "expect_raise": True},
                          {"obj": 0, "call": "schedule", "steps": sched, "max": 100000},
                          {"obj": 0, "call": "get_output", "full": True}, {"obj": 0, "call": "finalize"}]
            elif kind.startswith("persist:"):
                # run, put the script (or the one stored in the trajectory) through rdscript_to_dict/from_dict or save/load,
                # re-run the result on a new engine object: bit-identical
                route = kind.split(":")[1]
                calls += [{"obj": 0, "call": "simulate", "script": 0},
                          {"obj": 0, "call": "roundtrip", "script": 0, "to": 1, "route": route},
                          {"obj": 0, "call": "new"}, {"obj": 0, "call": "simulate", "script": 1}]
            elif kind == "edit_resim":
                # a sweep re-using one RDScript object: run, then the caller edits ITS script; the script stored in the
                # first trajectory must still reproduce it
                calls += [{"obj": 0, "call": "simulate", "script": 0},
                          {"obj": 0, "call": "edit_script", "script": 0,
                           "set": {"rng_seed": (e["S"]["kw"]["rng_seed"] + 1 + rng.randint(0, 1000)) % (2 ** 31), "time_step_factor": 0.5}},
                          {"obj": 0, "call": "new"}, {"obj": 0, "call": "resim"}]
            elif kind in ("edit_live", "edit_live_noseed"):
                # a replicate loop re-using one RDScript object with the step-wise API: set-up, drive, then the caller re-arms ITS
                # script object for the next replicate (seed, requested times, time step) BEFORE it collects the output of the
                # running one; the trajectory is that of the script as it was set up, and so is the script stored in it
                si = 0
                if kind == "edit_live_noseed":
                    S6 = json.loads(json.dumps(e["S"]))
                    S6["kw"]["rng_seed"] = None
                    scripts.append(S6)
                    si = len(scripts) - 1
                    edit = rng.choice([{"rng_seed": None}, {"rng_seed": rng.randint(0, 2 ** 32 - 1)}, {"rng_seed": None, "t_sample": [0.0]}])
                else:
                    seed2 = (e["S"]["kw"]["rng_seed"] + 1 + rng.randint(0, 1000)) % (2 ** 31)
                    edit = rng.choice([{"rng_seed": seed2}, {"rng_seed": None}, {"rng_seed": seed2, "t_sample": [0.0]}, {"t_sample": [0.0], "time_step_factor": 0.5},
                                       {"rng_seed": seed2, "time_step_factor": 0.5}])
                when = rng.choice(["end", "end", "mid"])
                calls += [{"obj": 0, "call": "setup", "script": si, "peek": True}]
                if when == "mid":
                    calls += [{"obj": 0, "call": "iterate_n", "n": rng.choice([1, 2, 5])},
                              {"obj": 0, "call": "edit_script", "script": si, "set": edit},
                              {"obj": 0, "call": "schedule", "steps": sched, "max": 100000}]
                else:
                    calls += [{"obj": 0, "call": "schedule", "steps": sched, "max": 100000},
                              {"obj": 0, "call": "edit_script", "script": si, "set": edit}]
                calls += [{"obj": 0, "call": "get_output", "full": True}, {"obj": 0, "call": "finalize"},
                          {"obj": 0, "call": "new"}, {"obj": 0, "call": "resim"}]
            elif kind == "repeat4":
                for _ in range(4):
                    calls += [{"obj": 0, "call": "setup", "script": 0}, {"obj": 0, "call": "schedule", "steps": sched, "max": 100000},
                              {"obj": 0, "call": "get_output", "full": False}, {"obj": 0, "call": "finalize"}]
            elif kind == "twice":
                # the SAME RDScript object is set up and run twice (set-up must not modify the caller's script)
                for _ in range(2):
                    calls += [{"obj": 0, "call": "setup", "script": 0, "peek": True},
                              {"obj": 0, "call": "schedule", "steps": sched, "max": 100000},
                              {"obj": 0, "call": "get_output", "full": True}, {"obj": 0, "call": "finalize"}]
            else:
                calls += [{"obj": main_obj, "call": "setup", "script": 0, "peek": True},
                          {"obj": main_obj, "call": "schedule", "steps": sched, "max": 100000},
                          {"obj": main_obj, "call": "get_output", "full": True}, {"obj": main_obj, "call": "finalize"}]
            jobs.append({"id": "v%d_%d" % (e["idx"], v), "engines": engines, "scripts": scripts, "calls": calls, "timeout": 30,
                         "kind": kind, "entry": e["idx"], "sched": sched})
        # another seed
        S3 = json.loads(json.dumps(e["S"]))
        S3["kw"]["rng_seed"] = (e["S"]["kw"]["rng_seed"] + 12345) % (2 ** 31)
        jobs.append({"id": "v%d_seed" % e["idx"], "engines": [e["eng"]], "scripts": [S3], "timeout": 30, "kind": "otherseed", "entry": e["idx"],
                     "sched": [], "calls": [{"obj": 0, "call": "simulate", "script": 0}]})
    # one iterate_n(k) with k > 10^6 against the same number of iterations in two calls (tiny system, fine time step)
    big_jobs = []
    for b in range(ctx.n(1, 3)):
        k = rng.choice([1200000, 1000001, 1500000])
        opt = ["euler", "tauleap"][b % 2]
        sysd = {"network": {"species": [{"label": "A", "density": 0, "D": 0}, {"label": "B", "density": 0, "D": 0}],
                            "reactions": [{"eq": "A -> B", "k+": 0.7, "k-": 0.2}], "environments": ["a"]},
                "space": {"type": "grid", "w": 1, "h": 1, "d": 1, "cell_volume": 1.0, "cell_env": [0], "boundary_conditions": {}},
                "state": [1000.0 if opt != "euler" else 7.25, 3.0]}
        Sb = {"system": sysd, "kw": {"t_sample": [0.0, 0.5, 0.9, 1.1, 1.4], "time_step": 1e-6, "t_max": 5.0, "sampling_policy": "on_t_sample",
                                     "rng_seed": rng.randint(0, 2 ** 31 - 1), "init_state_processing": "none"}}
        big_jobs.append({"id": "bigN%d" % b, "engines": [opt], "scripts": [Sb], "timeout": 60, "kind": "bigN", "k": k,
                         "calls": [{"obj": 0, "call": "setup", "script": 0}, {"obj": 0, "call": "iterate_n", "n": k, "peek": True},
                                   {"obj": 0, "call": "get_output", "full": True}, {"obj": 0, "call": "finalize"},
                                   {"obj": 0, "call": "setup", "script": 0}, {"obj": 0, "call": "iterate_n", "n": 600000, "peek": True},
                                   {"obj": 0, "call": "iterate_n", "n": k - 600000, "peek": True},
                                   {"obj": 0, "call": "get_output", "full": True}, {"obj": 0, "call": "finalize"}]})
    bres = lc.run_jobs(big_jobs, kind="plain", chunk=1, parallel=3, stall=60)
    for bj in big_jobs:
        r = bres[bj["id"]]
        case = {"job": {k2: bj[k2] for k2 in ("id", "engines", "scripts", "calls", "kind")}}
        ctx.case(("bigN", bj["id"], bj["k"]), nontrivial=True, sample={"op": "iterate_n", "k": bj["k"], "engine": bj["engines"][0]})
        ctx.count("iterate_n_beyond_1e6")
        if r["status"] != "ok" or any("raised" in x for x in r["results"]):
            ctx.violation("variant-run:bigN", "iterate_n(%d) did not go through: %s" % (bj["k"], r["status"]), case, impl=r["status"])
            continue
        Ts = [x.get("T") for c, x in zip(bj["calls"], r["results"]) if c["call"] == "iterate_n"]
        outs = [x["ret"] for c, x in zip(bj["calls"], r["results"]) if c["call"] == "get_output"]
        if Ts[0] != Ts[2] or outs[0]["hash"] != outs[1]["hash"]:
            ctx.violation("bitwise:iterate_n>1e6", "iterate_n(%d) in one call leaves the clock at %r with %d samples; iterate_n(600000) + iterate_n(%d) leaves it at %r with %d samples"
                          % (bj["k"], Ts[0], outs[0]["nsamples"], bj["k"] - 600000, Ts[2], outs[1]["nsamples"]), case,
                          impl={"clock": Ts[0], "t": outs[0]["t"]}, expected={"clock": Ts[2], "t": outs[1]["t"]})
    res = lc.run_jobs(jobs, kind="plain", chunk=ctx.n(6, 20), parallel=ctx.n(8, 8), stall=ctx.n(10, 30))
    # the same script and seed in fresh interpreters with different string-hash seeds (set / dict iteration orders differ)
    for hs in range(6):
        hjobs = [{"id": "v%d_hs%d" % (e["idx"], hs), "engines": [e["eng"]], "scripts": [e["S"]], "timeout": 30, "kind": "hashseed", "entry": e["idx"],
                  "sched": [], "hashseed": hs, "calls": [{"obj": 0, "call": "simulate", "script": 0}]}
                 for e in good if e.get("conv3") or (hs < 2 and e["idx"] % 5 == 0)]
        if hjobs:
            res.update(lc.run_jobs(hjobs, kind="plain", chunk=50, parallel=1, stall=ctx.n(10, 30), env_extra={"PYTHONHASHSEED": str(hs)}))
            jobs += hjobs
    by_idx = {e["idx"]: e for e in good}
    ops, metas = [], []
    for j in jobs:
        e = by_idx[j["entry"]]
        r = res[j["id"]]
        kind = j["kind"]
        ctx.count("variant_" + kind)
        case = {"job": {k: j[k] for k in ("id", "engines", "scripts", "calls", "kind")}, "reference_hash": e["ref"]["hash"]}
        if "hashseed" in j:
            case["env"] = {"PYTHONHASHSEED": str(j["hashseed"])}
        steps = len(e["ref"]["T"]) - 1
        ctx.case((e["idx"], j["id"]), nontrivial=steps >= 2,
                 sample={"op": "schedule", "kind": kind, "engine": e["option"], "policy": e["info"]["policy"], "steps": steps, "schedule": j["sched"][:6]})
        live_corr = False
        unexpected = [x for c, x in zip(j["calls"], r["results"]) if "raised" in x and not c.get("expect_raise")]
        not_refused = [c for c, x in zip(j["calls"], r["results"]) if c.get("expect_raise") and "raised" not in x]
        if not_refused and r["status"] == "ok":
            ctx.violation("setup-not-refused", "a set-up that must be refused (engine option %r / script without requested times and t_max) was accepted"
                          % j["engines"][not_refused[0]["obj"]], case)
        if r["status"] != "ok" or unexpected:
            what = r["status"] if r["status"] != "ok" else unexpected[0]["raised"]
            ctx.violation("variant-run:%s" % kind, "a %s run of a valid script did not go through: %s" % (kind, what), case, impl=what)
            continue
        outs = [x["ret"] for c, x in zip(j["calls"], r["results"]) if c["call"] in ("get_output", "simulate", "resim") and "ret" in x]
        for x in r["results"]:
            for key, what, impl, exp in lc.edit_failures(x):
                ctx.violation(key, what, case, impl=impl, expected=exp)
        if kind == "otherseed":
            h = outs[-1]["hash"]
            # (with init_state_processing Poisson / redist the initial state is drawn with the seed, for every engine)
            if e["option"] == "euler" and e["info"].get("mode") in ("none", "auto") and h != e["ref"]["hash"]:
                ctx.violation("euler-seed", "the deterministic engine's trajectory changed with the seed (engine object %s, init_state_processing %s)"
                              % (e["eng"], e["info"].get("mode")), case, impl=h, expected=e["ref"]["hash"])
            if e["option"] != "euler":
                ctx.count("stochastic_seed_changed" if h != e["ref"]["hash"] else "stochastic_seed_same")
            continue
        if kind == "noseed":
            # the drawn seed is stored; the stored script reproduces the run bit for bit
            if outs[-2]["seed"] is None or outs[-1]["hash"] != outs[-2]["hash"]:
                ctx.violation("stored-script:noseed", "re-running trajectory.script (seed drawn at construction) does not reproduce the trajectory",
                              case, impl={"seed": outs[-2]["seed"], "first": outs[-2]["hash"], "rerun": outs[-1]["hash"]})
            continue
        if kind in ("edit_live", "edit_live_noseed"):
            ed = [x["ret"] for c, x in zip(j["calls"], r["results"]) if c["call"] == "edit_script"][0]
            got = outs[0]        # the trajectory collected AFTER the caller's edit; outs[1] = re-run of its stored script
            if got["seed"] != ed["seed_before"]:
                ctx.violation("stored-script:live-aliased", "the caller set its script's seed (%r -> %r) between setup() and get_output(): the trajectory, simulated "
                              "with seed %r, stores a script with seed %r" % (ed["seed_before"], ed["seed_after"], ed["seed_before"], got["seed"]), case,
                              impl=got["seed"], expected=ed["seed_before"])
            if outs[1]["hash"] != got["hash"]:
                ctx.violation("stored-script:live-edit", "the caller edited its own script object (%s) between setup() and get_output(): re-running the script stored "
                              "in the trajectory does not reproduce the trajectory" % ", ".join(sorted(j["calls"][[c["call"] for c in j["calls"]].index("edit_script")]["set"])),
                              case, impl=outs[1]["hash"], expected=got["hash"])
            if kind == "edit_live" and got["hash"] != e["ref"]["hash"]:
                ctx.violation("bitwise:edit_live", "the caller edited its own script object while the engine held the simulation: the trajectory differs bitwise "
                              "from the fresh-process reference of the script as set up", case, impl=got["hash"], expected=e["ref"]["hash"])
            if kind == "edit_live" and j["calls"][1]["call"] == "schedule":
                live_corr = True          # the model (scripts are values) replays the schedule; the caller's edit is not an event of it
            else:
                continue
        for x in r["results"]:
            for key, what, impl, exp in lc.init_failures(x):
                ctx.violation(key, what, case, impl=impl, expected=exp)
        changed = [(c["call"], x["script_changed"]) for c, x in zip(j["calls"], r["results"]) if x.get("script_changed")]
        if changed:
            ctx.violation("script-modified", "%s() changed the caller's script (%s)" % (changed[0][0], changed[0][1][0]["field"]), case, impl=changed[0][1][:3], expected=[])
        if kind.startswith("persist:"):
            rt = [x["ret"] for c, x in zip(j["calls"], r["results"]) if c["call"] == "roundtrip"][0]
            if outs[-1]["hash"] != outs[0]["hash"]:
                lost = [f for f in ("time_step", "t_max", "sampling_interval") if rt[f] != rt["src_" + f]]
                ctx.violation("persisted-script:%s" % kind.split(":")[1], "the script after %s does not reproduce the trajectory of the original%s" % (
                    {"dict": "rdscript_to_dict / rdscript_from_dict", "file": "save_rdscript / load_rdscript", "traj_dict": "trajectory.script -> to_dict / from_dict",
                     "traj_file": "trajectory.script -> save / load"}[kind.split(":")[1]],
                    (" (%s: %s became %s)" % (lost[0], rt["src_" + lost[0]], rt[lost[0]])) if lost else ""), case, impl=outs[-1]["hash"], expected=outs[0]["hash"])
            if outs[0]["hash"] != e["ref"]["hash"]:
                ctx.violation("bitwise:simulate", "trajectory of simulate_script differs bitwise from the reference", case, impl=outs[0]["hash"], expected=e["ref"]["hash"])
            continue
        if kind == "units_reuse":
            if outs[-1]["hash"] != outs[-2]["hash"]:
                ctx.violation("bitwise:engine-reused-other-units", "an engine object that ran the script before runs the same network under another script units system: "
                              "the trajectory differs bitwise from the one a fresh engine object gives for that second script", case,
                              impl={"hash": outs[-2]["hash"], "first": outs[-2]["data"][:6]}, expected={"hash": outs[-1]["hash"], "first": outs[-1]["data"][:6]})
            continue
        if kind == "outsys_resim":
            if outs[-1]["hash"] != outs[0]["hash"]:
                ctx.violation("stored-script:shares-system", "after the caller modified trajectory.system in place, re-running trajectory.script does not reproduce the trajectory "
                              "(the stored script runs from the modified system)", case, impl=outs[-1]["hash"], expected=outs[0]["hash"])
            continue
        if kind == "edit_resim":
            ed = [x["ret"] for c, x in zip(j["calls"], r["results"]) if c["call"] == "edit_script"][0]
            if ed["stored_seed"] != ed["seed_before"]:
                ctx.violation("stored-script:aliased", "after the caller set its script's seed to %r, the script stored in the earlier trajectory (simulated with seed %r) "
                              "carries seed %r" % (ed["seed_after"], ed["seed_before"], ed["stored_seed"]), case, impl=ed["stored_seed"], expected=ed["seed_before"])
            if outs[-1]["hash"] != outs[0]["hash"]:
                ctx.violation("stored-script:after-edit", "after the caller edited its own script object (seed, time step), re-running the script stored in the "
                              "earlier trajectory does not reproduce that trajectory", case, impl=outs[-1]["hash"], expected=outs[0]["hash"])
            if outs[0]["hash"] != e["ref"]["hash"]:
                ctx.violation("bitwise:simulate", "trajectory of simulate_script differs bitwise from the reference", case, impl=outs[0]["hash"], expected=e["ref"]["hash"])
            continue
        if kind == "repeat4":
            hs = [o["hash"] for o in outs]
            if any(x != e["ref"]["hash"] for x in hs):
                k = next(i for i, x in enumerate(hs) if x != e["ref"]["hash"])
                ctx.violation("bitwise:repeat", "repetition %d of the same script on the same engine object differs bitwise from the fresh-process reference" % (k + 1),
                              case, impl=hs, expected=e["ref"]["hash"])
            continue
        if live_corr:
            outs = outs[:1]
        h = outs[-1]["hash"]
        if kind == "twice" and outs[0]["hash"] != outs[-1]["hash"]:
            ctx.violation("bitwise:same-script-twice", "running the same RDScript object twice gives two different trajectories", case,
                          impl=[o["hash"] for o in outs])
        if h != e["ref"]["hash"]:
            ctx.violation("bitwise:%s" % kind, "trajectory of a %s run differs bitwise from the fresh-process one-step-at-a-time reference" % kind,
                          case, impl={"hash": h, "nsamples": outs[-1]["nsamples"]}, expected={"hash": e["ref"]["hash"], "nsamples": e["ref"]["out"]["nsamples"]})
        if kind == "resim" and outs[-2]["hash"] != h:
            ctx.violation("stored-script", "re-running trajectory.script does not reproduce the trajectory", case)
        # ---- correspondence: the model replays the schedule
        if kind in ("schedule", "reused", "after_others", "twice") or live_corr:
            srec = [x for c, x in zip(j["calls"], r["results"]) if c["call"] == "schedule"][-1]["ret"]
            if srec["ncalls"] <= 50 and not e.get("subnormal"):
                T = e["ref"]["T"]
                N = len(e["ref"]["U"])
                stop = None
                if e["option"] == "gillespie" and N >= 1 and T[N] == T[N - 1]:
                    stop = N - 1
                clock = T if stop is None else T[:N]
                calls = [{"obj": 0, "call": "setup", "script": 0}]
                pos = 0
                sched = j["sched"]
                for i, (u, t) in enumerate(srec["log"]):
                    st = sched[min(i, len(sched) - 1)]
                    if st[0] == "iterate":
                        calls.append({"obj": 0, "call": "iterate"}); pos = min(pos + 1, N)
                    elif st[0] == "iterate_n":
                        calls.append({"obj": 0, "call": "iterate_n", "n": st[1]}); pos = min(pos + st[1], N)
                    else:
                        idx = [k for k, v in enumerate(clock) if v == t and k >= min(pos, len(clock) - 1)]
                        newpos = N if not u else (idx[0] if idx else pos)
                        calls.append({"obj": 0, "call": "run", "k": max(newpos - pos - 1, 0)}); pos = newpos
                calls.append({"obj": 0, "call": "get_output"})
                ops.append({"op": "lifecycle", "scripts": [lc.script_model_json(e["ref"]["meta"], e["info"]["policy"], e["info"]["space"], clock=clock, stop=stop)],
                            "calls": calls})
                metas.append((case, srec, outs[-1], e))
    answers = ctx.model.run(ops) if ops else []
    for (case, srec, out, e), ans in zip(metas, answers):
        if ans is None:
            continue
        obs = ans["ok"]
        mret = [o for o in obs[1:-1]]
        impl_ret = [u for u, _ in srec["log"]]
        mout = obs[-1]
        tf = e["ref"]["meta"]["tfactor"]
        ok = mret == impl_ret and isinstance(mout, dict) and len(mout["t"]) == len(out["t"]) and all(
            lc.fmatch(a, float(rparse(b)), tf) for a, b in zip(out["t"], mout["t"]))
        if not ok:
            ctx.disagree("lifecycle", case, {"returns": impl_ret[-8:], "t": out["t"][:8], "n": len(out["t"])},
                         {"returns": mret[-8:], "t": mout["t"][:8] if isinstance(mout, dict) else mout})


def replay(ctx, rec):
    case = rec.get("case", rec)
    job = dict(case["job"])
    job.setdefault("timeout", 30)
    res = lc.run_jobs([job], kind="plain", parallel=1, stall=20, env_extra=case.get("env"))
    r = res[str(job["id"])]
    if r["status"] != "ok":
        return False, {"status": r["status"], "at": r["at"]}
    outs = [x["ret"] for c, x in zip(job["calls"], r["results"]) if c["call"] in ("get_output", "simulate", "resim") and "ret" in x]
    if job.get("kind") == "hashseed" and bool(outs):
        # bit-identical across interpreters: the same run under the other hash seeds
        hs = []
        for k in range(4):
            rr = lc.run_jobs([dict(job)], kind="plain", parallel=1, stall=20, env_extra={"PYTHONHASHSEED": str(k)})[str(job["id"])]
            hs += [x["ret"]["hash"] for c, x in zip(job["calls"], rr["results"]) if c["call"] == "simulate" and "ret" in x]
        return (len(set(hs + [outs[-1]["hash"]])) == 1), {"hashes_by_PYTHONHASHSEED": hs, "this": outs[-1]["hash"]}
    detail = {"kind": job.get("kind"), "hashes": [o["hash"] for o in outs], "reference_hash": case.get("reference_hash")}
    if case.get("kind") == "seed-type":
        got = r["results"][0].get("meta", {}).get("seed")
        detail.update(seed=got, given=case.get("want_seed"))
        return got == case.get("want_seed"), detail
    inits = [f for x in r["results"] for f in lc.init_failures(x)]
    if inits:
        detail["marshalling"] = [{"key": f[0], "what": f[1]} for f in inits[:3]]
        return False, detail
    changed = [x["script_changed"] for x in r["results"] if x.get("script_changed")]
    if changed:
        detail["script_changed"] = changed[0]
        return False, detail
    if str(job.get("kind", "")).startswith("persist:"):
        return (len(outs) >= 2 and outs[-1]["hash"] == outs[0]["hash"]), detail
    if job.get("kind") == "units_reuse":
        return (len(outs) >= 2 and outs[-1]["hash"] == outs[-2]["hash"]), detail
    if job.get("kind") == "outsys_resim":
        return (len(outs) >= 2 and outs[-1]["hash"] == outs[0]["hash"]), detail
    if job.get("kind") == "bigN":
        outs2 = [x["ret"] for c, x in zip(job["calls"], r["results"]) if c["call"] == "get_output"]
        Ts = [x.get("T") for c, x in zip(job["calls"], r["results"]) if c["call"] == "iterate_n"]
        detail.update(clock=Ts, hashes=[o["hash"] for o in outs2])
        return (len(outs2) == 2 and outs2[0]["hash"] == outs2[1]["hash"]), detail
    if job.get("kind") == "edit_resim":
        ed = [x["ret"] for c, x in zip(job["calls"], r["results"]) if c["call"] == "edit_script" and "ret" in x]
        detail["edit"] = ed
        return (len(outs) >= 2 and outs[-1]["hash"] == outs[0]["hash"] and bool(ed) and ed[0]["stored_seed"] == ed[0]["seed_before"]), detail
    if job.get("kind") in ("edit_live", "edit_live_noseed"):
        ed = [x["ret"] for c, x in zip(job["calls"], r["results"]) if c["call"] == "edit_script" and "ret" in x]
        detail["edit"] = ed
        ok = len(outs) >= 2 and bool(ed) and outs[0]["seed"] == ed[0]["seed_before"] and outs[1]["hash"] == outs[0]["hash"]
        if job.get("kind") == "edit_live":
            ok = ok and outs[0]["hash"] == case.get("reference_hash")
        return ok, detail
    if job.get("kind") == "repeat4":
        return (bool(outs) and all(o["hash"] == case.get("reference_hash") for o in outs)), detail
    if job.get("kind") in ("noseed", "resim"):
        return (len(outs) >= 2 and outs[-1]["hash"] == outs[-2]["hash"]), detail
    return (bool(outs) and outs[-1]["hash"] == case.get("reference_hash")), detail
