"""C06 — Unit conversion is exact SI scaling and composes.

Theorems: lean/Strengths/Props/C06.lean (tables regenerated from units.py: G1, G2).
Correspondence: `conv_factor`, `convert` (five target forms, scalars and arrays), `parse_units` for
the litre / molar families.  Oracle (Spec, independent of the code's tables): SI meaning of every
symbol, written below from the SI brochure; composition / round-trip / identity on the real code.
"""
import itertools
from fractions import Fraction
import common
from common import frac, rstr, rparse, close

ID = "C06"
LEAN_TARGETS = ["Strengths.Props.C06"]
PROP_FILES = ["Strengths/Props/C06.lean"]
GEN_GROUPS = ["Units"]
RULE = ("exponents far beyond +-4 (10..48 on one to three bases, factor inside 1e+-270) through the factor, convert_value, all five target forms, "
        "scalars and arrays; ONE quantity object converted, its units edited in place through every public route (nested attribute / item "
        "setters, assignment of .sys / .dim / .units) and converted again to the same target; "
        "purity / re-use sequences (source and target objects re-used and edited between conversions); same-system other-dimension targets; exhaustive: every ordered pair of symbols per base kind x exponents -4..4 (factor vs exact SI ratio); "
        "random: triples of systems x dimension vectors in [-4,4]^3 x five target forms x scalar/array; "
        "a case is non-trivial when source and destination differ in a base whose exponent is non-zero; "
        "distinct by (src, dst, dim, form)")
ASSUMPTIONS = [
    "IEEE-754 double arithmetic of CPython/numpy is within 1e-12 relative of exact arithmetic for these short products",
    "Decimal literals of the scale table are read as exact decimals by the translator (1e-1 -> 1/10)",
]
TRUSTED = ["Python-side SI oracle (prefix table below) duplicates the Lean Spec `Strengths.C06.si*`"]

PREFIX = {"k": Fraction(1000), "": Fraction(1), "d": Fraction(1, 10), "c": Fraction(1, 100), "m": Fraction(1, 1000),
          "dm": Fraction(1, 10 ** 4), "cm": Fraction(1, 10 ** 5), "µ": Fraction(1, 10 ** 6), "n": Fraction(1, 10 ** 9),
          "p": Fraction(1, 10 ** 12), "f": Fraction(1, 10 ** 15)}
NA = Fraction(602214076 * 10 ** 15)
SPACE = ["km", "m", "dm", "cm", "mm", "dmm", "cmm", "µm", "nm", "pm", "fm"]
TIME = ["h", "min", "s", "ds", "cs", "ms", "µs", "ns", "ps", "fs"]
QTY = ["kmol", "mol", "dmol", "cmol", "mmol", "µmol", "nmol", "pmol", "fmol", "molecule"]
VOLUME = ["kL", "L", "mL", "µL", "nL", "pL", "fL"]
MOLAR = ["kM", "M", "dM", "cM", "mM", "µM", "nM", "pM", "fM"]


def si_space(s):
    return PREFIX[s[:-1]]


def si_time(s):
    return {"h": Fraction(3600), "min": Fraction(60)}.get(s) or PREFIX[s[:-1]]


def si_qty(s):
    return Fraction(1) if s == "molecule" else PREFIX[s[:-3]] * NA


def si_factor(sys, dim):
    return si_space(sys[0]) ** dim[0] * si_time(sys[1]) ** dim[1] * si_qty(sys[2]) ** dim[2]


def sysj(s):
    return {"space": s[0], "time": s[1], "quantity": s[2]}


def unitsj(s, d):
    return {"sys": sysj(s), "dim": list(d)}


def rand_sys(rng):
    return (rng.choice(SPACE), rng.choice(TIME), rng.choice(QTY))


def rand_dim(rng, lo=-4, hi=4):
    return (rng.randint(lo, hi), rng.randint(lo, hi), rng.randint(lo, hi))


def _log10(q):
    import math
    return math.log10(q.numerator) - math.log10(q.denominator)


_SYMS = (SPACE, TIME, QTY)
_SI1 = (si_space, si_time, si_qty)
_DEFAULT = ("µm", "s", "molecule")


def big_dim_case(rng, emax=48, budget=270.0):
    """(U, V, d): a conversion whose dimension vector has exponents far beyond the everyday +-4 (10 <= |e| <= emax on one,
    two or three bases) while the FACTOR itself — and every partial product of its three per-base ratios — stays well
    inside the range of doubles (sum over the bases of |log10 (src/dst)^e| <= budget).  The scales themselves raised to
    such an exponent (NA^13, (1e-15)^21) are far outside that range: only the quotient src/dst may be raised.
    Source and destination agree (identity), are neighbours in the table (ratio 10 / 60 / 1000) or are any pair."""
    nact = rng.choice([1, 1, 1, 2, 2, 3])
    act = rng.sample([0, 1, 2], nact)
    U, V, d = [None] * 3, [None] * 3, [0] * 3
    for k in range(3):
        syms = _SYMS[k]
        if k not in act:
            U[k], V[k] = rng.choice(syms), rng.choice(syms)
            continue
        for _try in range(50):
            a = rng.choice(syms)
            how = rng.random()
            if how < 0.2:
                b = a
            elif how < 0.65:
                i = syms.index(a)
                b = syms[min(max(i + rng.choice([-1, 1, -2, 2]), 0), len(syms) - 1)]
            else:
                b = rng.choice(syms)
            L = abs(_log10(_SI1[k](a) / _SI1[k](b)))
            top = emax if L == 0 else min(emax, int((budget / nact) / L))
            if top >= 10:
                break
        else:
            a = b = rng.choice(syms)
            top = emax
        e = rng.choice([top, top, top - 1, rng.randint(10, top), rng.randint(10, top)])
        U[k], V[k], d[k] = a, b, e * rng.choice([1, -1])
    return tuple(U), tuple(V), tuple(d)


_UT = [0]


def units_text(sys, dim, rng=None):
    """a unit string denoting (sys, dim) using only base symbols; spellings are varied deterministically: '.' form,
    '/' before a factor with the sign of its exponent flipped (also a NEGATIVE written exponent after '/': a/b-2 = a.b2),
    exponent 1 written out, ASCII 'u' for 'µ'"""
    _UT[0] += 1
    k = _UT[0]
    parts = []
    for j, (sym, e) in enumerate(zip(sys, dim)):
        if e != 0:
            parts.append((sym, e))
    out = ""
    for j, (sym, e) in enumerate(parts):
        sep = "."
        if j > 0 and (k + j) % 3 == 0:
            sep, e = "/", -e
        txt = sym if (e == 1 and (k + j) % 5 != 0) else "%s%d" % (sym, e)
        out += (sep if j > 0 else "") + txt
    if k % 4 == 0:
        out = out.replace("µ", "u")
    return out


def impl_objs():
    from strengths.units import (UnitsSystem, UnitsDimensions, Units, UnitValue, UnitArray, compute_conversion_factor,
                                 parse_units)
    return UnitsSystem, UnitsDimensions, Units, UnitValue, UnitArray, compute_conversion_factor, parse_units


_MK = [0]
_ORDERS = [("space", "time", "quantity"), ("time", "space", "quantity"), ("quantity", "time", "space"), ("time", "quantity", "space"),
           ("quantity", "space", "time"), ("space", "quantity", "time")]


def mk_units(sys, dim):
    """Units from objects, or (every third call) from the two documented dictionary forms with the keys written in one of
    the six possible orders — the meaning of a dictionary does not depend on the order its keys are written in"""
    UnitsSystem, UnitsDimensions, Units = impl_objs()[:3]
    _MK[0] += 1
    k = _MK[0]
    if k % 3 == 0:
        o1, o2 = _ORDERS[(k // 3) % 6], _ORDERS[(k // 18) % 6]
        sv = {"space": sys[0], "time": sys[1], "quantity": sys[2]}
        dv = {"space": int(dim[0]), "time": int(dim[1]), "quantity": int(dim[2])}
        return Units({a: sv[a] for a in o1}, {a: dv[a] for a in o2})
    return Units(UnitsSystem(space=sys[0], time=sys[1], quantity=sys[2]),
                 UnitsDimensions(space=dim[0], time=dim[1], quantity=dim[2]))


def _sys3(u):
    return (u.sys.space, u.sys.time, u.sys.quantity)


def _dim3(u):
    return (u.dim.space, u.dim.time, u.dim.quantity)


def big_exponent_stream(ctx, n, TOL=1e-12):
    """exponents 10..48: factor, convert_value, scalar and array conversion, identity, there-and-back, composition through an
    intermediate system — all judged by exact SI scaling; the factor is also compared with the model's `conv_factor`"""
    UnitsSystem, UnitsDimensions, Units, UnitValue, UnitArray, ccf, parse_units = impl_objs()
    from strengths.units import convert_value
    import numpy as np
    rng = ctx.rng
    cases = [big_dim_case(rng) for _ in range(n)]
    ops = [{"op": "conv_factor", "src": sysj(U), "dst": sysj(V), "dim": list(d)} for U, V, d in cases]
    res = ctx.model.run(ops)
    for (U, V, d), r in zip(cases, res):
        spec = si_factor(U, d) / si_factor(V, d)
        v0 = float(rng.choice([1, -1]) * rng.randint(1, 999999) * Fraction(10) ** rng.randint(-3, 3))
        case = {"src": U, "dst": V, "dim": d, "v": v0}
        same_on_active = all(U[k] == V[k] for k in range(3) if d[k] != 0)
        ctx.case(("X", U, V, d), nontrivial=True, sample={"op": "conv_factor", "case": case, "spec": common.fstr(spec)})
        ctx.count("large_exponent")
        ctx.count("large_exponent_identity" if same_on_active else "large_exponent_%d_bases" % sum(1 for e in d if e))
        got = {}

        def attempt(name, fn):
            try:
                got[name] = fn()
            except Exception as ex:  # noqa
                got[name] = "error:" + type(ex).__name__
        sU, sV, dd = UnitsSystem(*U), UnitsSystem(*V), UnitsDimensions(*d)
        attempt("factor", lambda: float(ccf(sU, sV, dd)))
        attempt("convert_value", lambda: float(convert_value(v0, sU, sV, dd)))
        attempt("scalar", lambda: float(UnitValue(v0, mk_units(U, d)).convert(UnitsSystem(*V)).value))
        attempt("array", lambda: [float(x) for x in UnitArray([v0, 3.0 * v0], mk_units(U, d)).convert(UnitsSystem(*V)).value])
        attempt("ndarray", lambda: [float(x) for x in convert_value(np.array([v0, -v0]), sU, sV, dd)])
        attempt("back", lambda: float(UnitValue(v0, mk_units(U, d)).convert(UnitsSystem(*V)).convert(UnitsSystem(*U)).value))
        attempt("same", lambda: float(UnitValue(v0, mk_units(U, d)).convert(UnitsSystem(*U)).value))
        attempt("same_array", lambda: [float(x) for x in UnitArray([v0], mk_units(U, d)).convert(UnitsSystem(*U)).value])
        fv = frac(v0)

        def okv(x, q):
            return isinstance(x, float) and close(x, q, rel=TOL)

        def okl(xs, qs):
            return isinstance(xs, list) and len(xs) == len(qs) and all(okv(x, q) for x, q in zip(xs, qs))
        bad = []
        if not okv(got["factor"], spec):
            bad.append("factor")
        if not okv(got["convert_value"], fv * spec):
            bad.append("convert_value")
        if not okv(got["scalar"], fv * spec):
            bad.append("scalar")
        if not okl(got["array"], [fv * spec, 3 * fv * spec]):
            bad.append("array")
        if not okl(got["ndarray"], [fv * spec, -fv * spec]):
            bad.append("ndarray")
        if not okv(got["back"], fv):
            bad.append("back")
        if not okv(got["same"], fv) or not okl(got["same_array"], [fv]):
            bad.append("same")
        if bad:
            what = "identity" if (same_on_active or bad == ["same"]) else "value"
            ctx.violation("large-exponent:%s" % what,
                          "with dimension %s, converting %r from %s to %s: %s differ(s) from exact SI scaling (factor %s): %r"
                          % (list(d), v0, list(U), list(V), ", ".join(bad), common.fstr(spec), {b: got[b] for b in bad}),
                          case, impl=got, expected={"factor": rstr(spec)})
        if r is not None and "ok" in r:
            if not okv(got["factor"], rparse(r["ok"])):
                ctx.disagree("conv_factor", case, got["factor"], r["ok"])
        elif r is not None:
            ctx.disagree("conv_factor", case, got["factor"], r)


_EDITS = ["sys-attr", "sys-item", "dim-attr", "dim-item", "sys-object", "sys-dict", "dim-object", "dim-dict",
          "units-object", "units-text", "sys-attr", "sys-item", "dim-attr", "dim-item"]
_BASES = ("space", "time", "quantity")


def _apply_edit(x, how, ks, cur_sys, cur_dim, W, d3):
    """edit the units of the quantity x in place through one public route (ks: the bases touched by the nested setters);
    returns the (sys, dim) x must now have"""
    UnitsSystem, UnitsDimensions, Units = impl_objs()[:3]
    cs, cd = list(cur_sys), list(cur_dim)
    if how == "sys-attr":
        for k in ks:
            setattr(x.units.sys, _BASES[k], W[k])
            cs[k] = W[k]
    elif how == "sys-item":
        for k in ks:
            x.units.sys[_BASES[k]] = W[k]
            cs[k] = W[k]
    elif how == "dim-attr":
        for k in ks:
            setattr(x.units.dim, _BASES[k], d3[k])
            cd[k] = d3[k]
    elif how == "dim-item":
        for k in ks:
            x.units.dim[_BASES[k]] = d3[k]
            cd[k] = d3[k]
    elif how == "sys-object":
        x.units.sys = UnitsSystem(*W)
        cs = list(W)
    elif how == "sys-dict":
        x.units.sys = sysj(W)
        cs = list(W)
    elif how == "dim-object":
        x.units.dim = UnitsDimensions(*d3)
        cd = list(d3)
    elif how == "dim-dict":
        x.units.dim = {"space": d3[0], "time": d3[1], "quantity": d3[2]}
        cd = list(d3)
    elif how == "units-object":
        x.units = mk_units(W, d3)
        cs, cd = list(W), list(d3)
    elif how == "units-text":
        x.units = units_text(W, d3)
        cs = [W[k] if d3[k] != 0 else _DEFAULT[k] for k in range(3)]
        cd = list(d3)
    else:
        raise ValueError(how)
    return tuple(cs), tuple(cd)


def _mk_target(form, V, d):
    UnitsSystem, UnitsDimensions, Units, UnitValue = impl_objs()[:4]
    if form == "str":
        return units_text(V, d), {"kind": "str"}
    if form == "units":
        return mk_units(V, d), {"kind": "units", "u": unitsj(V, d)}
    if form == "uval":
        return UnitValue(7, mk_units(V, d)), {"kind": "uval", "x": {"v": "7", "u": unitsj(V, d)}}
    if form == "sys":
        return UnitsSystem(*V), {"kind": "sys", "sys": sysj(V)}
    return sysj(V), {"kind": "dict", "d": sysj(V)}


_FORMS5 = ["sys", "dict", "units", "uval", "str"]


def edit_sequence(case, TOL=1e-12):
    """run one recorded history on ONE quantity object (see edited_in_place_stream) on the real code.
    → (problems, pending model comparisons, edited object differs from the original in a base that matters)"""
    UnitsSystem, UnitsDimensions, Units, UnitValue, UnitArray, ccf, parse_units = impl_objs()
    import numpy as np
    U, V, W, X = tuple(case["U"]), tuple(case["T"]), tuple(case["W"]), tuple(case["X"])
    d, d3 = tuple(case["dim"]), tuple(case["dim_after"])
    vals, is_arr, form = list(case["values"]), case["array"], case["target_form"]
    x = UnitArray(list(vals), mk_units(U, d)) if is_arr else UnitValue(vals[0], mk_units(U, d))
    st = {"sys": tuple(U), "dim": tuple(d)}
    problems, pend = [], []
    tobj, tj = _mk_target(form, V, st["dim"])
    tdim = st["dim"]

    def conv(label, target_sys, tform, reuse=None):
        """convert x (as it is now) and judge against SI scaling from the units it has now"""
        cur_sys, cur_dim = st["sys"], st["dim"]
        t, tjs = reuse if reuse is not None else _mk_target(tform, target_sys, cur_dim)
        f = si_factor(cur_sys, cur_dim) / si_factor(target_sys, cur_dim)
        before = np.array(x.value, dtype=float).tobytes()
        try:
            y = x.convert(t)
            gv = [float(v) for v in (y.value if is_arr else [y.value])]
            gs, gd = _sys3(y.units), _dim3(y.units)
        except Exception as ex:  # noqa
            problems.append((label, "raised " + type(ex).__name__, None))
            return
        eff = tuple(target_sys[k] if (tform != "str" or cur_dim[k] != 0) else _DEFAULT[k] for k in range(3))
        if np.array(x.value, dtype=float).tobytes() != before:
            problems.append((label, "the converted object's own values changed", [float(v) for v in np.ravel(x.value)]))
        if len(gv) != len(vals) or not all(close(g, frac(v) * f, rel=TOL) for g, v in zip(gv, vals)) or gd != cur_dim or gs != eff:
            problems.append((label, "got %r %s^%s, exact SI scaling from the current units %s^%s gives %s %s^%s"
                             % (gv, list(gs), list(gd), list(cur_sys), list(cur_dim), [common.fstr(frac(v) * f) for v in vals],
                                list(eff), list(cur_dim)), gv))
        elif tjs.get("kind") != "str":
            op = {"op": "convert", "target": tjs}
            if is_arr:
                op["xs"] = {"vs": [rstr(v) for v in vals], "u": unitsj(cur_sys, cur_dim)}
            else:
                op["x"] = {"v": rstr(vals[0]), "u": unitsj(cur_sys, cur_dim)}
            pend.append((dict(case, step=label), gv, gs, gd, op))

    for w in range(case["conversions_before"]):
        conv("before-edit-%d" % w, V, form, reuse=(tobj, tj))
    if case["detour"]:
        conv("before-edit-detour", X, "sys")
        conv("before-edit-again", V, form, reuse=(tobj, tj))
    ok_edit = True
    for how, ks in zip(case["edits"], case["edit_bases"]):
        try:
            st["sys"], st["dim"] = _apply_edit(x, how, ks, st["sys"], st["dim"], W, d3)
        except Exception as ex:  # noqa
            problems.append(("edit:" + how, "a documented units setter raised " + type(ex).__name__, None))
            ok_edit = False
            break
    if ok_edit and (_sys3(x.units), _dim3(x.units)) != (st["sys"], st["dim"]):
        problems.append(("edit", "units read back after the edit are %s^%s, assigned %s^%s"
                         % (list(_sys3(x.units)), list(_dim3(x.units)), list(st["sys"]), list(st["dim"])), None))
        ok_edit = False
    nontriv = ok_edit and any((st["sys"][k] != U[k] and st["dim"][k] != 0) or st["dim"][k] != d[k] for k in range(3))
    if ok_edit:
        # the same target object when it carries no dimension or the dimension was not edited; else the same target system
        reuse = (tobj, tj) if (form in ("sys", "dict") or st["dim"] == tdim) else None
        conv("after-edit", V, form, reuse=reuse)
        conv("after-edit-other-target", X, _FORMS5[(_FORMS5.index(form) + 1) % 5])
        conv("after-edit-again", V, form, reuse=reuse)
        # a copy of the edited object converts like the object
        try:
            y = x.copy().convert(UnitsSystem(*V))
            gv = [float(v) for v in (y.value if is_arr else [y.value])]
            f = si_factor(st["sys"], st["dim"]) / si_factor(V, st["dim"])
            if not all(close(g, frac(v) * f, rel=TOL) for g, v in zip(gv, vals)):
                problems.append(("after-edit-copy", "copy().convert gives %r" % gv, gv))
        except Exception as ex:  # noqa
            problems.append(("after-edit-copy", "raised " + type(ex).__name__, None))
    return problems, pend, nontriv


def edited_in_place_stream(ctx, n, TOL=1e-12):
    """history on ONE quantity object: k conversions (to T, possibly to other targets in between, ending with T), an in-place
    edit of its units through a public route (nested attribute / item setters of `x.units.sys`, `x.units.dim`, assignment of
    `x.units.sys`, `x.units.dim`, `x.units`), then conversion to the SAME target system T again (same target object when its
    form carries no dimension), then to another target and to T once more.  Every conversion is judged by exact SI scaling
    from the units the object has at that moment (tracked here from what was assigned, and read back from the object);
    the values of the object must stay bit-identical.  The post-edit conversions are also compared with the model's
    `convert` on a fresh quantity holding the current units (conversion is a function of the current content only)."""
    rng = ctx.rng
    pend = []
    for i in range(n):
        U, V, W, X = rand_sys(rng), rand_sys(rng), rand_sys(rng), rand_sys(rng)
        d = rand_dim(rng, -3, 3)
        if d == (0, 0, 0):
            d = (1, 0, 0)
        d3 = rand_dim(rng, -3, 3)
        is_arr = (i % 4 != 3)
        vals = [float(rng.randint(1, 99999) * Fraction(10) ** rng.randint(-6, 6)) for _ in range(rng.randint(1, 4) if is_arr else 1)]
        nedits = rng.choice([1, 1, 2])
        edits = [_EDITS[(i + 5 * j) % len(_EDITS)] if j == 0 else rng.choice(_EDITS) for j in range(nedits)]
        case = {"U": U, "T": V, "W": W, "X": X, "dim": d, "dim_after": d3, "values": vals, "array": is_arr,
                "target_form": _FORMS5[i % 5], "edits": edits,
                "edit_bases": [sorted(rng.sample([0, 1, 2], rng.choice([1, 1, 2, 3]))) for _ in edits],
                "conversions_before": rng.choice([1, 1, 2, 3]),      # conversions to T before the edit
                "detour": rng.random() < 0.3}                        # T, X, T before the edit
        ctx.count("edited_in_place_sequences")
        ctx.count("edited_in_place_" + edits[0])
        problems, pnd, nontriv = edit_sequence(case, TOL)
        pend += pnd
        ctx.case(("E", U, V, W, d, d3, case["target_form"], is_arr, tuple(edits), case["conversions_before"], case["detour"]),
                 nontrivial=nontriv)
        if problems:
            label = problems[0][0]
            stage = "after-edit" if label.startswith("after") else ("edit" if label.startswith("edit") else "before-edit")
            ctx.violation("edited-in-place:%s:%s:%s" % ("array" if is_arr else "scalar", stage, edits[0] if stage != "before-edit" else "none"),
                          "one %s converted, its units edited in place (%s), converted again: step %s: %s"
                          % ("UnitArray" if is_arr else "UnitValue", ", ".join(edits), label, problems[0][1]),
                          case, impl=[list(p) for p in problems[:4]], expected="exact SI scaling from the object's current units")
    res = ctx.model.run([p[4] for p in pend])
    for (case, gv, gs, gd, op), r in zip(pend, res):
        if r is None:
            continue
        if "ok" not in r:
            ctx.disagree("convert", case, gv, r)
            continue
        mo = r["ok"]
        mvs = [rparse(v) for v in (mo["vs"] if "vs" in mo else [mo["v"]])]
        ms = (mo["u"]["sys"]["space"], mo["u"]["sys"]["time"], mo["u"]["sys"]["quantity"])
        if len(mvs) != len(gv) or not all(close(g, m, rel=TOL) for g, m in zip(gv, mvs)) or ms != tuple(gs) or tuple(mo["u"]["dim"]) != tuple(gd):
            ctx.disagree("convert", case, gv, r)


def run(ctx):
    UnitsSystem, UnitsDimensions, Units, UnitValue, UnitArray, ccf, parse_units = impl_objs()
    rng = ctx.rng
    TOL = 1e-12

    # ---------------------------------------------------------------- 1. exhaustive per-base factors
    ops, meta = [], []
    kinds = [("space", SPACE, 0), ("time", TIME, 1), ("quantity", QTY, 2)]
    for kname, syms, pos in kinds:
        for a, b in itertools.product(syms, syms):
            for e in range(-4, 5):
                src = ["µm", "s", "molecule"]
                dst = ["µm", "s", "molecule"]
                src[pos], dst[pos] = a, b
                dim = [0, 0, 0]
                dim[pos] = e
                ops.append({"op": "conv_factor", "src": sysj(src), "dst": sysj(dst), "dim": dim})
                meta.append((tuple(src), tuple(dst), tuple(dim), kname, a, b, e))
    res = ctx.model.run(ops)
    for (src, dst, dim, kname, a, b, e), r in zip(meta, res):
        try:
            got = ccf(UnitsSystem(*[src[0], src[1], src[2]]), UnitsSystem(dst[0], dst[1], dst[2]),
                      UnitsDimensions(dim[0], dim[1], dim[2]))
            got_err = None
        except Exception as ex:  # noqa
            got, got_err = None, repr(ex)
        spec = si_factor(src, dim) / si_factor(dst, dim)
        case = {"src": src, "dst": dst, "dim": dim}
        ctx.case(("f", src, dst, dim), nontrivial=(a != b and e != 0),
                 sample={"op": "conv_factor", "case": case, "impl": got, "spec": rstr(spec)})
        ctx.count("factor_" + kname)
        if got_err is not None or not close(got, spec, rel=TOL):
            ctx.violation("factor:%s:%s->%s" % (kname, a, b),
                          "conversion factor %s -> %s (exponent %d) is %r, SI scaling gives %s" % (a, b, e, got if got_err is None else got_err, float(spec)),
                          case, impl=got if got_err is None else got_err, expected=rstr(spec))
        if r is not None:
            mv = rparse(r["ok"])
            if got_err is not None or not close(got, mv, rel=TOL):
                ctx.disagree("conv_factor", case, got if got_err is None else got_err, r["ok"])

    # ---------------------------------------------------------------- 1b. extreme units x exponents up to +-6 on all three
    # bases at once (factors between 1e-150 and 1e+150): the factor is a product of per-base ratios, each exact to an ulp
    ext = {"space": ["km", "fm", "µm", "m"], "time": ["h", "fs", "s"], "quantity": ["kmol", "molecule", "fmol"]}
    ecases = []
    for _ in range(ctx.n(120, 4000)):
        U = (rng.choice(ext["space"]), rng.choice(ext["time"]), rng.choice(ext["quantity"]))
        V = (rng.choice(ext["space"]), rng.choice(ext["time"]), rng.choice(ext["quantity"]))
        d = tuple(rng.choice([-6, -5, 5, 6, rng.randint(-6, 6)]) for _k in range(3))
        ecases.append((U, V, d))
    ecases += [(("km", "h", "kmol"), ("fm", "fs", "molecule"), (-6, -6, 6)), (("fm", "fs", "molecule"), ("km", "h", "kmol"), (-6, -6, 6)),
               (("km", "s", "molecule"), ("fm", "s", "molecule"), (-6, 0, 0)), (("fm", "fs", "kmol"), ("km", "h", "molecule"), (6, 6, 6))]
    for U, V, d in ecases:
        spec = si_factor(U, d) / si_factor(V, d)
        # stay inside the range of doubles whatever the order of the three per-base factors: sum of |log10| below 280
        import math
        mags = 0.0
        for kk in range(3):
            dk = [0, 0, 0]
            dk[kk] = d[kk]
            rk = si_factor(U, dk) / si_factor(V, dk)
            mags += abs(math.log10(rk.numerator) - math.log10(rk.denominator))
        if mags > 280:
            ctx.count("factor_extreme_outside_double_range_skipped")
            continue
        case = {"src": U, "dst": V, "dim": d}
        ctx.case(("x", U, V, d), nontrivial=(U != V))
        ctx.count("factor_extreme")
        try:
            got = ccf(UnitsSystem(*U), UnitsSystem(*V), UnitsDimensions(*d))
            back = UnitValue(3.0, mk_units(U, d)).convert(UnitsSystem(*V)).convert(UnitsSystem(*U)).value
        except Exception as ex:  # noqa
            got, back = "error:" + type(ex).__name__, None
        if isinstance(got, str) or not close(got, spec, rel=TOL) or back is None or not close(back, Fraction(3), rel=TOL):
            ctx.violation("factor:extreme", "conversion factor %s^%s -> %s is %r (SI scaling gives %s), there-and-back of 3.0 gives %r"
                          % (U, d, V, got, common.fstr(spec), back), case, impl={"factor": got, "back": back}, expected=rstr(spec))

    # ---------------------------------------------------------------- 1c. exponents far beyond +-4 (the property quantifies over
    # all integer dimension vectors): 10 <= |e| <= 48 on one to three bases, factor (and its partial products) inside 1e+-270
    big_exponent_stream(ctx, ctx.n(400, 12000))

    # ---------------------------------------------------------------- 2. random conversions, five target forms
    n = ctx.n(1500, 40000)
    ops, meta = [], []
    forms = ["str", "units", "uval", "sys", "dict"]
    nbig = ctx.n(300, 8000)       # the same five target forms with exponents far beyond +-4 (see big_dim_case)
    for i in range(n + nbig):
        big = i >= n
        if not big:
            U, V = rand_sys(rng), rand_sys(rng)
            d = rand_dim(rng)
        else:
            U, V, d = big_dim_case(rng)
        form = forms[i % 5]
        mismatch = (rng.random() < 0.15)
        d2 = d
        if mismatch and not big:
            while d2 == d:
                d2 = rand_dim(rng)
        elif mismatch:
            # another large dimension vector: one exponent off by one / sign flipped / dropped
            while d2 == d:
                kk = rng.randrange(3)
                d2 = tuple(rng.choice([d[j] + 1, d[j] - 1, -d[j], 0]) if j == kk else d[j] for j in range(3))
        is_arr = rng.random() < 0.4
        mant = rng.choice([1, -1]) * rng.randint(1, 999999) * Fraction(10) ** rng.randint(-12, 12)
        vals = [float(mant)] if not is_arr else [float(mant * rng.randint(1, 9)) for _ in range(rng.randint(0, 4))]
        if form == "str":
            tj = {"kind": "str", "s": units_text(V, d2)}
        elif form == "units":
            tj = {"kind": "units", "u": unitsj(V, d2)}
        elif form == "uval":
            tj = {"kind": "uval", "x": {"v": "7", "u": unitsj(V, d2)}}
        elif form == "sys":
            tj = {"kind": "sys", "sys": sysj(V)}
        else:
            tj = {"kind": "dict", "d": sysj(V)}
        op = {"op": "convert", "target": tj}
        if is_arr:
            op["xs"] = {"vs": [rstr(v) for v in vals], "u": unitsj(U, d)}
        else:
            op["x"] = {"v": rstr(vals[0]), "u": unitsj(U, d)}
        ops.append(op)
        meta.append((U, V, d, d2, form, is_arr, vals, big))
    res = ctx.model.run(ops)
    for (U, V, d, d2, form, is_arr, vals, big), r, op in zip(meta, res, ops):
        src_units = mk_units(U, d)
        x = UnitArray(vals, src_units) if is_arr else UnitValue(vals[0], src_units)
        if form == "str":
            t = units_text(V, d2)
        elif form == "units":
            t = mk_units(V, d2)
        elif form == "uval":
            t = UnitValue(7, mk_units(V, d2))
        elif form == "sys":
            t = UnitsSystem(V[0], V[1], V[2])
        else:
            _tv = {"space": V[0], "time": V[1], "quantity": V[2]}
            t = {a: _tv[a] for a in _ORDERS[(len(vals) + len(V[0]) + len(V[1]) + len(V[2])) % 6]}   # key order is immaterial
        try:
            y = x.convert(t)
            got = {"vs": [float(v) for v in (y.value if is_arr else [y.value])],
                   "sys": (y.units.sys.space, y.units.sys.time, y.units.sys.quantity),
                   "dim": (y.units.dim.space, y.units.dim.time, y.units.dim.quantity)}
        except Exception as ex:  # noqa
            got = {"error": type(ex).__name__}
        case = {"op": op}
        # a text target whose exponent for a base is 0 leaves that base at the default unit
        if form == "str":
            Veff = tuple(V[k] if d2[k] != 0 else ("µm", "s", "molecule")[k] for k in range(3))
        else:
            Veff = V
        checks_dim = form in ("str", "units", "uval")
        must_raise = checks_dim and d2 != d
        nontriv = (not must_raise) and any(U[k] != Veff[k] and d[k] != 0 for k in range(3))
        ctx.case(("c", U, V, d, d2, form, is_arr, len(vals)), nontrivial=nontriv or must_raise,
                 sample={"op": "convert", "form": form, "src": [U, d], "dst": [V, d2], "impl": got})
        ctx.count("form_" + form)
        ctx.count("array" if is_arr else "scalar")
        ctx.count("expected_error" if must_raise else "expected_ok")
        if big:
            ctx.count("convert_large_exponent")
        form = form + (":large-exponent" if big else "")      # (only used in the keys of findings below)
        # --- oracle (Spec)
        if must_raise:
            if "error" not in got:
                ctx.violation("convert-other-dim:%s" % form, "conversion to a different dimension did not raise (%s target)" % form,
                              case, impl=got, expected="exception")
        else:
            if "error" in got:
                ctx.violation("convert-raises:%s" % form, "valid conversion raised %s" % got["error"], case, impl=got, expected="value")
            else:
                f = si_factor(U, d) / si_factor(Veff, d)
                okv = len(got["vs"]) == len(vals) and all(close(g, frac(v) * f, rel=TOL) for g, v in zip(got["vs"], vals))
                if not okv or tuple(got["dim"]) != tuple(d) or tuple(got["sys"]) != tuple(Veff):
                    ctx.violation("convert-value:%s" % form, "converted value/units differ from exact SI scaling",
                                  case, impl=got, expected={"factor": rstr(f), "sys": Veff, "dim": d})
        # --- correspondence with the model
        if r is not None:
            if ("error" in r) != ("error" in got):
                ctx.disagree("convert", case, got, r)
            elif "ok" in r:
                mo = r["ok"]
                mvs = [rparse(v) for v in (mo["vs"] if is_arr else [mo["v"]])]
                ms = (mo["u"]["sys"]["space"], mo["u"]["sys"]["time"], mo["u"]["sys"]["quantity"])
                if len(mvs) != len(got["vs"]) or not all(close(g, m, rel=TOL) for g, m in zip(got["vs"], mvs)) \
                        or ms != tuple(got["sys"]) or tuple(mo["u"]["dim"]) != tuple(got["dim"]):
                    ctx.disagree("convert", case, got, r)

    # ---------------------------------------------------------------- 3. composition / round trip / identity on the real code
    m = ctx.n(600, 20000)
    for i in range(m):
        U, V, W = rand_sys(rng), rand_sys(rng), rand_sys(rng)
        d = rand_dim(rng)
        v0 = float(rng.choice([1, -1]) * rng.randint(1, 99999) * Fraction(10) ** rng.randint(-9, 9))
        x = UnitValue(v0, mk_units(U, d))
        sV, sW, sU = UnitsSystem(*V), UnitsSystem(*W), UnitsSystem(*U)
        direct = x.convert(sW).value
        through = x.convert(sV).convert(sW).value
        back = x.convert(sV).convert(sU).value
        same = x.convert(sU).value
        case = {"U": U, "V": V, "W": W, "dim": d, "v": v0}
        ctx.case(("t", U, V, W, d), nontrivial=(U != V and V != W and d != (0, 0, 0)))
        ctx.count("triples")
        if not close(through, frac(direct), rel=TOL):
            ctx.violation("compose", "conversion through an intermediate system differs from the direct one", case,
                          impl={"direct": direct, "through": through})
        if not close(back, frac(v0), rel=TOL):
            ctx.violation("roundtrip", "there-and-back conversion does not return the value", case, impl={"back": back})
        if same != v0:
            ctx.violation("identity", "conversion to the same system changed the value", case, impl={"same": same})

    # ---------------------------------------------------------------- 3b. purity / re-use: conversion never modifies its
    # operands or targets, equal inputs give equal outputs whatever happened before, and a target object that is edited
    # through its setters between two conversions is read with its CURRENT units
    import numpy as np
    k = ctx.n(300, 6000)
    for i in range(k):
        U, V, W = rand_sys(rng), rand_sys(rng), rand_sys(rng)
        d = rand_dim(rng)
        if d == (0, 0, 0):
            d = (1, -1, 0)
        vals = [float(rng.randint(1, 99999) * Fraction(10) ** rng.randint(-6, 6)) for _ in range(rng.randint(1, 4))]
        case = {"U": U, "V": V, "W": W, "dim": d, "vals": vals}
        ctx.case(("p", U, V, W, d, len(vals)), nontrivial=(U != V))
        ctx.count("purity_sequences")
        # (a) array source: converted twice from the same object; the source must stay bit-identical
        arr = UnitArray(list(vals), mk_units(U, d))
        before = np.array(arr.value, dtype=float).tobytes()
        tV = UnitsSystem(*V)
        r1 = [float(v) for v in arr.convert(tV).value]
        if np.array(arr.value, dtype=float).tobytes() != before:
            ctx.violation("purity:array-source-modified", "UnitArray.convert modified its source array", case,
                          impl={"source_after": [float(v) for v in arr.value]}, expected={"source": vals})
        r2 = [float(v) for v in arr.convert(tV).value]
        f = si_factor(U, d) / si_factor(V, d)
        if r1 != r2 or not all(close(g, frac(v) * f, rel=TOL) for g, v in zip(r2, vals)):
            ctx.violation("purity:array-second-conversion", "a second conversion of the same array differs from the first / from SI scaling",
                          case, impl={"first": r1, "second": r2}, expected={"factor": rstr(f)})
        # raw ndarray through convert_value
        from strengths.units import convert_value
        raw = np.array(vals, dtype=float)
        rb = raw.tobytes()
        cv_pos = convert_value(raw, UnitsSystem(*U), tV, UnitsDimensions(*d))
        if raw.tobytes() != rb:
            ctx.violation("purity:ndarray-modified", "convert_value modified the array it was given", case, impl=[float(v) for v in raw])
        # the documented function, called positionally and by its documented parameter names (in shuffled order), on a
        # scalar and on an array: every calling convention must give exact SI scaling from su_src to su_dst
        kw = [("value", vals[0]), ("su_src", UnitsSystem(*U)), ("su_dst", UnitsSystem(*V)), ("sdim", UnitsDimensions(*d))]
        rng.shuffle(kw)
        ctx.count("convert_value_keyword_calls")
        try:
            cv_kw = float(convert_value(**dict(kw)))
            cv_mixed = [float(v) for v in convert_value(np.array(vals, dtype=float), UnitsSystem(*U), sdim=UnitsDimensions(*d), su_dst=UnitsSystem(*V))]
        except Exception as ex:  # noqa
            cv_kw, cv_mixed = "error:" + type(ex).__name__, []
        cv_pos = [float(v) for v in cv_pos]
        if isinstance(cv_kw, str) or not close(cv_kw, frac(vals[0]) * f, rel=TOL) \
                or len(cv_mixed) != len(vals) or not all(close(g, frac(v) * f, rel=TOL) for g, v in zip(cv_mixed, vals)) \
                or not all(close(g, frac(v) * f, rel=TOL) for g, v in zip(cv_pos, vals)):
            ctx.violation("convert_value:calling-convention", "convert_value(value, su_src, su_dst, sdim) called positionally / by parameter "
                          "name does not scale from su_src to su_dst", case,
                          impl={"positional": cv_pos, "keyword_scalar": cv_kw, "mixed_array": cv_mixed, "keyword_order": [k for k, _ in kw]},
                          expected={"factor": rstr(f)})
        # (b) the SAME target object, edited through its setters between two conversions
        x = UnitValue(vals[0], mk_units(U, d))
        tgt = UnitsSystem(*V)
        y1 = x.convert(tgt).value
        tgt.space, tgt.time, tgt.quantity = W[0], W[1], W[2]
        y2 = x.convert(tgt)
        fW = si_factor(U, d) / si_factor(W, d)
        got_sys = (y2.units.sys.space, y2.units.sys.time, y2.units.sys.quantity)
        if not close(y2.value, frac(vals[0]) * fW, rel=TOL) or got_sys != tuple(W) or not close(y1, frac(vals[0]) * f, rel=TOL):
            ctx.violation("purity:edited-target", "a target units system edited through its setters is not read with its current units",
                          case, impl={"first": y1, "second": y2.value, "sys": got_sys}, expected={"second_factor": rstr(fW), "sys": W})
        # (c) the quantity's own units edited in place, then converted again
        x2 = UnitValue(vals[0], mk_units(U, d))
        x2.convert(tV)
        x2.units.sys.space, x2.units.sys.time, x2.units.sys.quantity = W[0], W[1], W[2]
        y3 = x2.convert(tV).value
        fWV = si_factor(W, d) / si_factor(V, d)
        if not close(y3, frac(vals[0]) * fWV, rel=TOL):
            ctx.violation("purity:edited-source-units", "a quantity whose units were edited in place is converted with stale units",
                          case, impl=y3, expected=rstr(frac(vals[0]) * fWV))
        # (d) scalar source unchanged
        if x.value != vals[0] or (x.units.sys.space, x.units.sys.time, x.units.sys.quantity) != tuple(U):
            ctx.violation("purity:scalar-source-modified", "UnitValue.convert modified its source", case, impl=x.value)

    # ---------------------------------------------------------------- 3d. ONE quantity object (array or scalar) converted, then
    # its units edited IN PLACE through the public nested setters, then converted again to the same target
    edited_in_place_stream(ctx, ctx.n(350, 8000))

    # ---------------------------------------------------------------- 3c. other dimension, SAME unit system (every checking form)
    # (a text target names only the bases with non-zero exponent; the others default to µm / s / molecule)
    for i in range(ctx.n(400, 4000)):
        U = rand_sys(rng) if i % 2 else ("µm", "s", "molecule")
        d = rand_dim(rng, -3, 3)
        d2 = d
        while d2 == d or d2 == (0, 0, 0):
            d2 = rand_dim(rng, -3, 3)
        is_arr = bool(i % 3 == 0)
        src = UnitArray([1.5, 2.5], mk_units(U, d)) if is_arr else UnitValue(1.5, mk_units(U, d))
        for form in ("str", "units", "uval"):
            if form == "str":
                # the text must denote exactly U on the bases it names and leave the others at their defaults = U's
                if any(d2[kk] == 0 and U[kk] != ("µm", "s", "molecule")[kk] for kk in range(3)):
                    continue
                t = units_text(U, d2)
            elif form == "units":
                t = mk_units(U, d2)
            else:
                t = UnitValue(7, mk_units(U, d2))
            case = {"same_system": U, "dim": d, "target_dim": d2, "form": form, "array": is_arr}
            ctx.case(("sd", U, d, d2, form, is_arr))
            ctx.count("same_system_other_dim")
            try:
                y = src.convert(t)
                ctx.violation("convert-other-dim-same-system:%s" % form,
                              "conversion to a different dimension within the same unit system did not raise (%s target)" % form,
                              case, impl=str(y), expected="exception")
            except Exception:  # noqa
                pass

    # ---------------------------------------------------------------- 4. litre / molar families through unit text
    ops, meta = [], []
    for sym in VOLUME + MOLAR:
        for e in (1, -1, 2, -2, 3):
            txt = sym if e == 1 else "%s%d" % (sym, e)
            ops.append({"op": "parse_units", "s": txt})
            meta.append((sym, e, txt))
            if sym.startswith("µ"):          # the documented ASCII spelling: uL, uM
                txt2 = txt.replace("µ", "u")
                ops.append({"op": "parse_units", "s": txt2})
                meta.append((sym, e, txt2))
    # the same symbols as the SECOND factor of a product / quotient: "s-1/µM2" = s-1.µM-2, "s.L" …
    for sym in VOLUME + MOLAR:
        for e in (1, 2, -1):
            for sep in (".", "/"):
                txt = "s-1%s%s" % (sep, sym if e == 1 else "%s%d" % (sym, e))
                ops.append({"op": "parse_units", "s": txt})
                meta.append((sym, ("s-1", -e if sep == "/" else e), txt))
    res = ctx.model.run(ops)
    for (sym, e, txt), r in zip(meta, res):
        lead_t = 0
        if isinstance(e, tuple):
            lead_t, e = -1, e[1]
        if sym in VOLUME:
            spec_dim = (3 * e, lead_t, 0)
            spec_si = (PREFIX[sym[:-1]] * Fraction(1, 1000)) ** e
        else:
            spec_dim = (-3 * e, lead_t, e)
            spec_si = (PREFIX[sym[:-1]] * NA / Fraction(1, 1000)) ** e
        case = {"text": txt}
        try:
            u = parse_units(txt)
            gsys = (u.sys.space, u.sys.time, u.sys.quantity)
            gdim = (u.dim.space, u.dim.time, u.dim.quantity)
            gsi = si_factor(gsys, gdim)
            # and through the conversion routine itself: 1 <txt> in SI base units
            val = UnitValue(1.0, txt).convert(UnitsSystem("m", "s", "molecule")).value
            got = {"sys": gsys, "dim": gdim, "si_value_of_one": val}
        except Exception as ex:  # noqa
            got = {"error": type(ex).__name__}
        ctx.case(("fam", txt), sample={"op": "family", "text": txt, "impl": got})
        ctx.count("family")
        if "error" in got or tuple(got["dim"]) != spec_dim or gsi != spec_si or not close(got["si_value_of_one"], spec_si, rel=TOL):
            ctx.violation("family:%s" % sym, "%s is not read with its SI meaning" % txt, case, impl=got,
                          expected={"dim": spec_dim, "si": rstr(spec_si)})
        if r is not None:
            if ("error" in r) != ("error" in got):
                ctx.disagree("parse_units", case, got, r)
            elif "ok" in r:
                mo = r["ok"]
                if (mo["sys"]["space"], mo["sys"]["time"], mo["sys"]["quantity"]) != tuple(got["sys"]) or tuple(mo["dim"]) != tuple(got["dim"]):
                    ctx.disagree("parse_units", case, got, r)


def search(ctx):
    """an obligation broke and no input failed yet: the two history / magnitude streams at thorough size"""
    big_exponent_stream(ctx, 6000)
    edited_in_place_stream(ctx, 4000)


def replay(ctx, rec):
    """re-run one recorded case on the real code"""
    UnitsSystem, UnitsDimensions, Units, UnitValue, UnitArray, ccf, parse_units = impl_objs()
    case = rec.get("case", rec)
    out = {"case": case}
    ok = True
    if "edits" in case and "edit_bases" in case:
        problems, _pend, _nt = edit_sequence(case)
        out.update(problems=[list(p) for p in problems[:4]])
        ok = not problems
    elif "src" in case and "dst" in case:
        src, dst, dim = case["src"], case["dst"], case["dim"]
        spec = si_factor(src, dim) / si_factor(dst, dim)
        try:
            got = ccf(UnitsSystem(*src), UnitsSystem(*dst), UnitsDimensions(*dim))
            v0 = case.get("v", 1.0)
            val = UnitValue(v0, mk_units(src, dim)).convert(UnitsSystem(*dst)).value
            out.update(impl=got, converted=val, spec=common.fstr(spec))
            ok = close(got, spec, rel=1e-12) and close(val, frac(v0) * spec, rel=1e-12)
        except Exception as ex:  # noqa
            out.update(impl=repr(ex), spec=common.fstr(spec))
            ok = False
    elif "text" in case:
        try:
            u = parse_units(case["text"])
            out.update(impl={"units": str(u), "dim": [u.dim.space, u.dim.time, u.dim.quantity]}, expected=rec.get("expected"))
            exp = rec.get("expected") or {}
            ok = list(exp.get("dim", [])) == out["impl"]["dim"]
        except Exception as ex:  # noqa
            out.update(impl=repr(ex))
            ok = False
    elif "U" in case and "vals" in case:
        # purity / re-use / calling-convention sequences: positional and keyword calls of convert_value, and a repeated
        # array conversion, against exact SI scaling
        import numpy as np
        from strengths.units import convert_value
        U, V, d, vals = case["U"], case["V"], tuple(case["dim"]), case["vals"]
        f = si_factor(U, d) / si_factor(V, d)
        try:
            pos = [float(v) for v in convert_value(np.array(vals, dtype=float), UnitsSystem(*U), UnitsSystem(*V), UnitsDimensions(*d))]
            kw = float(convert_value(sdim=UnitsDimensions(*d), su_dst=UnitsSystem(*V), su_src=UnitsSystem(*U), value=vals[0]))
            arr = UnitArray(list(vals), mk_units(U, d))
            r1 = [float(v) for v in arr.convert(UnitsSystem(*V)).value]
            r2 = [float(v) for v in arr.convert(UnitsSystem(*V)).value]
            out.update(positional=pos, keyword=kw, first=r1, second=r2, factor=float(f))
            ok = close(kw, frac(vals[0]) * f, rel=1e-12) and r1 == r2 and \
                all(close(g, frac(v) * f, rel=1e-12) for g, v in zip(pos, vals)) and all(close(g, frac(v) * f, rel=1e-12) for g, v in zip(r2, vals))
        except Exception as ex:  # noqa
            out.update(impl=repr(ex))
            ok = False
    elif "U" in case:
        x = UnitValue(case["v"], mk_units(case["U"], case["dim"]))
        sV, sW, sU = UnitsSystem(*case["V"]), UnitsSystem(*case["W"]), UnitsSystem(*case["U"])
        direct = x.convert(sW).value
        through = x.convert(sV).convert(sW).value
        back = x.convert(sV).convert(sU).value
        out.update(direct=direct, through=through, back=back)
        ok = close(through, frac(direct), rel=1e-12) and close(back, frac(case["v"]), rel=1e-12)
    elif "op" in case:
        out.update(note="re-run with the same VERIF_SEED to reproduce this conversion case", recorded_impl=rec.get("impl"),
                   expected=rec.get("expected"))
        ok = False
    return ok, out
