"""C11 — The native engine is memory-safe on every valid script.   (partial by nature, see Props/C11.lean)

Theorems: lean/Strengths/Props/C11.lean — flat index bounds, guarded read of t_samples (conjunct ORDER from the
regenerated loop condition), selected / non-zero diffusion channels have a neighbour, Poisson only with positive mean
(guards regenerated from the sources), allocation state machine without double free / use after free, and the registry
of every `vector[index]` of the engine sources (a new or changed subscript breaks the build).
Oracle (the property's own observation point): the engine sources of the working tree are compiled with
-D_GLIBCXX_ASSERTIONS (tier quick and thorough) and with AddressSanitizer + UBSan + -fsanitize=float-cast-overflow (a subset in quick, more in thorough)
and driven through the normal Python API in sandboxed children over degenerate shapes (size-1 grids, periodic axes of
length 1-2, isolated nodes, self-loops, parallel edges), all policies incl. empty request lists and empty tails, all
processing modes, coarse time steps (overshoot to negative amounts), repeated output fetches with sampling in between,
grid and graph runs in one process, double finalize, calls on a released engine, abandoned runs mixing the space types,
simulate_script with coarse-graining maps holding -1 / -2 / -3 marks (refused in Python or clean).  Any abort / sanitizer report is a
failing input; so is a trajectory that differs bitwise between the plain and the instrumented builds.
Marshalling (observed by wrapping the library call in the child, not by reading the code): every buffer handed to
engineexport_initialize_{grid,graph} has exactly the length of the count passed alongside (n_sample / t_sample, n_edges /
edge arrays, n_meshes*n_species / state and chemostat buffers, the tables), and the native return code is 0 for every
script the Python setters accepted (3 engines x 2 spaces x the 4 accepted init_state_processing values, request lists
with repeated times).
Caller-keeps-its-script stream (c11_child.py): after setup(script) the caller assigns another system (fewer / more cells or
species), request list or units system to ITS OWN script object — at once, mid-run, after the last step — then fetches twice,
finalizes and sets the same object up again; observed at the native calls that WRITE into a caller-provided buffer
(get_trajectory / get_tsample / get_state: buffer length >= what the engine writes) and by the sanitizer build (ctypes buffers
from malloc).  Theorem `output_buffer_of_a_smaller_system_faults`.
Top-of-int-range stream: tau-leap steps (grid and graph, reaction and diffusion channels) whose Poisson means lie in
[2^24, 2^31), most within a few standard deviations of INT_MAX (molecule counts up to 2^33): every event count of a step, read
off the trajectory, is an int in [0, 2^31-1]; plain, hardened and sanitizer (float-cast-overflow) builds.
Correspondence: op `lifecycle` on the observed clock (as C09) for the runs of the hardened build; op `checked_step` — one
Iterate() of the checked-access model from each recorded state of real runs (logged draws) gives the next recorded state.
"""
import json
import common
from common import frac, rstr, rparse, close
import life_common as lc
from props import c09

ID = "C11"
LEAN_TARGETS = ["Strengths.Props.C11", "Strengths.Props.C11Refine"]
PROP_FILES = ["Strengths/Props/C11.lean", "Strengths/Props/C11Refine.lean"]
GEN_GROUPS = ["EngineCpp", "EngineLife", "IndexPy"]
RULE = ("scripts: 3 engines x grid/graph (60 % degenerate shapes) x 4 policies x request styles (incl. empty, 40 % with repeated times) x "
        "networks with more directed reactions than 6 n_species and with more species than reactions x all 4 accepted processing modes for every engine and space (sanitizer subset: one job per engine x space x mode first) x "
        "coarse / fine time steps; each driven to completion with explicit samples, two output fetches with a sample in between, "
        "double finalize, then a call on the released engine; run on the plain, the assertion-hardened and (subset) the ASan/UBSan build; "
        "histories in which the caller re-assigns system / request list / units of the script object it handed to setup (at once, mid-run, after the "
        "last step) before fetching, then sets the object up again; tau-leap steps with Poisson means in [2^24, 2^31) (most within 1e6 of INT_MAX), "
        "reaction and diffusion channels, grid and graph; "
        "non-trivial when >= 2 steps were made; distinct by script")
ASSUMPTIONS = [
    "the random coarse-graining maps of cgmap_jobs use groups of CONSECUTIVE cells only: groups with coinciding centroids are the known finding "
    "cgmap-coinciding-centroids (known_findings.txt), exercised by two directed jobs that always run and report under that one key",
    "hardened libstdc++ (-D_GLIBCXX_ASSERTIONS) aborts on out-of-range operator[] and on distribution preconditions; ASan/UBSan report "
    "heap overflows, use after free, double free and undefined arithmetic they instrument — reads of uninitialised memory are NOT detected",
    "Poisson MEANS stay below 2^31 (at or beyond it the unchanged std::poisson_distribution<int> does not return: known, repaired separately); "
    "the top-of-int-range stream goes up to INT_MAX - 1 with init_state_processing='none', amounts up to 2^33",
]
TRUSTED = ["life_child.py, c11_child.py (sandboxed drivers of the real engine)", "g++ sanitizer run-times"]


def classify(stderr, status):
    s = stderr or ""
    if "_M_mean" in s or "poisson" in s.lower():
        return "poisson-precondition"
    if "__n < this->size()" in s or "vector" in s and "Assertion" in s:
        return "vector-subscript-out-of-range"
    if "heap-use-after-free" in s:
        return "use-after-free"
    if "attempting double-free" in s or "double free" in s:
        return "double-free"
    if "heap-buffer-overflow" in s:
        return "heap-buffer-overflow"
    if "runtime error" in s:
        return "undefined-behaviour"
    if "AddressSanitizer" in s:
        return "asan-report"
    return "abort" if status.startswith("crash") else status


MODES = ["auto", "none", "redist", "Poisson"]      # every value the RDScript setter accepts, for every engine and space


def make_job(rng, jid, option, coarse=False, dup=False, mutate=None, **kw):
    job = c09.make_job(rng, jid, option, **kw)
    S = job["scripts"][0]
    info = job["info"]
    if dup:
        # a REPEATED requested time (valid: e.g. two concatenated linspace segments sharing an end point)
        ts = S["kw"]["t_sample"]
        vals = ts["__unitarray__"] if isinstance(ts, dict) else ts
        if vals:
            k = rng.randrange(len(vals))
            for _ in range(rng.randint(1, 3)):
                vals.insert(k, vals[k])
            info["style"] = info["style"] + "+dup"
            info["duplicates"] = True
            if info.get("expect"):
                info["expect"]["tsamples"].insert(k, info["expect"]["tsamples"][k])
    if coarse:
        # coarse time step: reaction / diffusion events overshoot, amounts go negative (valid script, poor accuracy);
        # short runs keep the amounts far below 2^31
        S["kw"]["time_step"] = rng.choice([1.0, 2.0, 4.0])
        S["kw"]["t_max"] = S["kw"]["time_step"] * rng.randint(1, 6)
        S["kw"].pop("units_system", None)
        if isinstance(S["kw"].get("t_sample"), dict):
            S["kw"]["t_sample"] = [float(v) for v in S["kw"]["t_sample"]["__unitarray__"]]
        if isinstance(S["kw"].get("sampling_interval"), str):
            S["kw"]["sampling_interval"] = 1.5
        space = S["system"]["space"]
        if space["type"] == "grid":
            scale = space["cell_volume"] ** (2.0 / 3.0)
        else:
            vmin = min(nd["volume"] for nd in space["nodes"])
            worst = max([e["surface"] / e["distance"] for e in space["edges"]] + [1.0])
            scale = vmin / worst
        for sp in S["system"]["network"]["species"]:
            # kd * dt per slot in {0, 0.3, 0.6}: overshoot to negative amounts, growth per step stays small (size assumption)
            sp["D"] = rng.choice([0.0, 0.3, 0.6]) * scale / S["kw"]["time_step"]
        for r in S["system"]["network"]["reactions"]:
            if not isinstance(r["k+"], dict):
                r["k+"] = rng.choice([0.3, 1.0, 0.05])
        info["coarse"] = True
        info["dyadic"] = False
        info["units"] = False
        info["explicit_tmax"] = True
    size = info["nsp"] * info["n"]
    # after the C09 sequence (… drive, get_output, finalize): second fetch with a sample in between, double finalize, use after release
    calls = list(job["calls"])
    while calls and calls[-1]["call"] in ("simulate", "finalize"):
        calls.pop()
    if mutate:
        # the caller modifies the trajectory object it was just given (e.g. assigns a SMALLER system to its .script), goes on
        # and fetches again: the engine's own buffers must not be sized from the caller's object
        calls.append({"obj": 0, "call": "mutate_out", "what": mutate})
        info["mutate_out"] = mutate
    calls += [{"obj": 0, "call": "sample"}, {"obj": 0, "call": "iterate"}, {"obj": 0, "call": "sample"},
              {"obj": 0, "call": "get_output", "full": False}, {"obj": 0, "call": "get_progress"},
              {"obj": 0, "call": "finalize"}, {"obj": 0, "call": "finalize"},
              {"obj": 0, "call": rng.choice(["iterate", "sample", "get_progress", "get_output"])}]
    job["calls"] = calls
    return job


def checked_correspondence(ctx):
    """the checked-access model (Model/Checked*.lean, the object of `engine_never_faults`) computes what the real engine
    computes: one Iterate() of the model from each recorded state of a real run (logged draws) must give the next recorded
    state — exactly for the stochastic engines, within 1e-9 of the magnitudes for Euler — and must not report a failed access"""
    import math
    import engine_io
    import strengths as st
    rng = ctx.rng
    M = ctx.model
    n_scripts = ctx.n(9, 90)
    for i in range(n_scripts):
        option = lc.OPTIONS[i % 3]
        kind = ["grid", "graph"][(i // 3) % 2]
        S, info = lc.gen_script(rng, option, space_kind=kind, units=False, policy="on_iteration", max_steps=4, dyadic=True,
                                degenerate=(i % 2 == 1), mode=("none" if option == "euler" else "floor_as_auto"))
        if option != "euler":
            S["kw"]["init_state_processing"] = "auto"
            S["system"]["state"] = [float(int(v)) for v in S["system"]["state"]]
        S["kw"]["t_sample"] = [0.0]
        system = st.rdsystem_from_dict(S["system"])
        script = st.RDScript(system, **{k: v for k, v in S["kw"].items() if not k.startswith("__")})
        try:
            traj, draws, _ = engine_io.run_recorded(script, option, kind="shim" if option != "euler" else "plain", with_draws=(option != "euler"), max_iter=8)
        except Exception as ex:  # noqa
            ctx.count("checked_runs_failed")
            continue
        arr = engine_io.system_arrays(script, option != "euler")
        eng = engine_io.eng_json(arr)
        ss = engine_io.samples(traj)
        nsteps = len(ss) - 1
        if nsteps < 1:
            continue
        dt = float(script.time_step.value)
        ops, exp = [], []
        if option == "euler":
            for k in range(nsteps):
                ops.append({"op": "checked_step", "eng": eng, "x": [rstr(v) for v in ss[k][1]], "option": option, "dt": rstr(dt)})
                exp.append((ss[k][1], ss[k + 1][1]))
        elif option == "tauleap":
            means = M.run([{"op": "tauleap_means", "eng": eng, "x": [rstr(v) for v in ss[k][1]], "dt": rstr(dt)} for k in range(nsteps)])
            if any(m is None for m in means):
                continue
            npos = [sum(1 for m in r["ok"] if rparse(m) > 0) for r in means]
            step_draws = draws[len(draws) - sum(npos):]
            p = 0
            for k in range(nsteps):
                dd = step_draws[p:p + npos[k]]; p += npos[k]
                ops.append({"op": "checked_step", "eng": eng, "x": [rstr(v) for v in ss[k][1]], "option": option, "dt": rstr(dt),
                            "draws": [int(d[3]) for d in dd]})
                exp.append((ss[k][1], ss[k + 1][1]))
        else:
            step_draws = draws[len(draws) - 2 * nsteps:]
            for k in range(nsteps):
                u1, u2 = step_draws[2 * k][3], step_draws[2 * k + 1][3]
                ops.append({"op": "checked_step", "eng": eng, "x": [rstr(v) for v in ss[k][1]], "option": option, "dt": rstr(dt),
                            "u1": rstr(u1), "L": rstr(math.log(1 / u2))})
                exp.append((ss[k][1], ss[k + 1][1]))
        res = M.run(ops)
        for (x0, x1), r, op in zip(exp, res, ops):
            if r is None:
                continue
            ctx.count("checked_steps_%s_%s" % (option, kind))
            ctx.case(("checked", i, tuple(x0)), nontrivial=x0 != x1)
            case = {"op": {k: op[k] for k in op if k != "eng"}, "space": kind, "script": S}
            if "ok" not in r:
                ctx.disagree("checked_step", case, {"next_state": x1[:8]}, r, note="the checked model reports a failed access on a valid script")
                continue
            mx = [rparse(v) for v in r["ok"]["x"]]
            if option == "euler":
                ok = len(mx) == len(x1) and all(close(a, b, mag=abs(c) + 1, rel=1e-9) for a, b, c in zip(x1, mx, x0))
            else:
                ok = [frac(v) for v in x1] == mx
            if not ok:
                ctx.disagree("checked_step", case, {"next_state": x1[:8]}, {"next_state": [float(v) for v in mx[:8]]})


def abandon_histories(ctx, n, tag="ab"):
    """several simulations in one process mixing the space types, some ABANDONED (the next set-up follows without finalize):
    grid finalized / graph abandoned / grid again and the mirror orders, on the plain, hardened and sanitizer builds"""
    rng = ctx.rng
    jobs = []
    for i in range(n):
        option = lc.OPTIONS[i % 3]
        a = ["grid", "graph"][i % 2]
        b = "graph" if a == "grid" else "grid"
        order = [[a, b, a], [a, b, b], [b, a, b], [a, a, b]][(i // 2) % 4]
        fin = [[True, False, True], [False, False, False], [True, False, False], [False, True, False]][(i // 3) % 4]
        scripts, calls = [], []
        for sp, f in zip(order, fin):
            S, info = lc.gen_script(rng, option, space_kind=sp, max_steps=10, units=False, degenerate=rng.random() < 0.5)
            scripts.append(S)
            calls.append({"obj": 0, "call": "setup", "script": len(scripts) - 1})
            calls += [{"obj": 0, "call": rng.choice(["iterate", "iterate", "sample"])} for _ in range(rng.randint(1, 3))]
            if rng.random() < 0.5:
                calls.append({"obj": 0, "call": "get_output", "full": False})
            if f:
                calls.append({"obj": 0, "call": "finalize"})
        calls += [{"obj": 0, "call": "iterate_n", "n": 1000}, {"obj": 0, "call": "get_output", "full": False}, {"obj": 0, "call": "finalize"},
                  {"obj": 0, "call": "finalize"}]
        jobs.append({"id": "%s%d" % (tag, i), "engines": [option], "scripts": scripts, "calls": calls, "timeout": 20, "order": order, "finalized": fin})
    for kind in ("plain", "hard", "asan"):
        res = lc.run_jobs([dict(j) for j in jobs], kind=kind, chunk=1, parallel=ctx.n(8, 8), stall=ctx.n(15, 60))
        for j in jobs:
            r = res[j["id"]]
            case = {"job": {k: j[k] for k in ("id", "engines", "scripts", "calls", "order", "finalized")}, "build": kind, "history": True}
            ctx.count("abandon_histories_" + kind)
            if kind == "plain":
                ctx.case(("abandon", json.dumps(j["calls"]), json.dumps(j["scripts"], sort_keys=True)), nontrivial=True,
                         sample={"op": "abandon-history", "engine": j["engines"][0], "spaces": j["order"], "finalized": j["finalized"]})
            if r["status"] != "ok":
                at = r["at"] if r["at"] is not None else len(r["results"])
                call = j["calls"][at]["call"] if at < len(j["calls"]) else "end-of-job"
                what = classify(r.get("stderr", ""), r["status"])
                ctx.violation("%s:%s:abandoned-run" % (what, call), "%s build: %s in %s() (call %d) of a history of %s runs with finalize = %s" % (kind, what, call, at, j["order"], j["finalized"]),
                              case, impl={"status": r["status"], "stderr": r.get("stderr", "")[-600:]}, expected="no memory error, no abort")
                continue
            raised = [x for x in r["results"] if "raised" in x]
            if raised:
                ctx.violation("raised", "a lifecycle call raised in a history of valid scripts: %s" % raised[0]["raised"], case)
            for x in r["results"]:
                for key, what, impl, exp in lc.init_failures(x):
                    ctx.violation(key, "%s build: %s" % (kind, what), case, impl=impl, expected=exp)


def cgmap_jobs(ctx, n, tag="cg"):
    """simulate_script(…, cgmap=…) with index maps holding -1 (documented "excluded"), -2 / -3 and gaps: either Python refuses
    the map (the property holds vacuously: counted) or the run is clean on the plain, hardened and sanitizer builds and no
    index outside the space reaches the engine"""
    rng = ctx.rng
    jobs = []
    for i in range(n):
        option = lc.OPTIONS[i % 3]
        # lines of cells, groups = consecutive runs (groups whose centres coincide — e.g. {1,4} and {2,3} of a line of 5 — give
        # a coarse-grained graph with an edge of length 0 and NaN rates: coarse-graining's own domain, reported to the coordinator)
        w, h = rng.choice([(6, 1), (4, 1), (3, 1), (5, 1)])
        ncell = w * h
        sysd = {"network": {"species": [{"label": "A", "density": 0, "D": 0.5}, {"label": "B", "density": 0, "D": 0.1}],
                            "reactions": [{"eq": "A -> B", "k+": 0.3, "k-": 0.1}], "environments": ["a"]},
                "space": {"type": "grid", "w": w, "h": h, "d": 1, "cell_volume": 1.0, "cell_env": [0] * ncell,
                          "boundary_conditions": ({"x": "periodical"} if rng.random() < 0.4 else {})},
                "state": [float(rng.choice([5, 12, 40, 3])) for _ in range(2 * ncell)]}
        S = {"system": sysd, "kw": {"t_sample": [0.0, 0.05, 0.1], "time_step": 0.01, "t_max": 0.1, "sampling_policy": "on_t_sample",
                                    "rng_seed": rng.randint(0, 2 ** 31 - 1)}}
        # groups = consecutive runs of at least 2 cells, so that a mark never removes a whole group (the map stays valid but
        # for the mark itself)
        ngroups = rng.randint(1, max(1, ncell // 2))
        sizes = [2] * ngroups
        for _ in range(ncell - 2 * ngroups):
            sizes[rng.randrange(ngroups)] += 1
        cg = [g for g, sz in enumerate(sizes) for _ in range(sz)]
        marks = [[-1], [-2], [-3, -1], [-2, -2], []][i % 5]
        free = list(range(ncell))
        for m in marks:
            ok = [k for k in free if cg[k] >= 0 and sum(1 for v in cg if v == cg[k]) >= 2] or free
            k = rng.choice(ok)
            cg[k] = m
        jobs.append({"id": "%s%d" % (tag, i), "engines": [option], "scripts": [S], "timeout": 20, "marks": marks, "cgmap": cg,
                     "calls": [{"obj": 0, "call": "simulate_cg", "script": 0, "cgmap": cg}, {"obj": 0, "call": "finalize"}]})
    for kind in ("plain", "hard", "asan"):
        res = lc.run_jobs([dict(j) for j in jobs], kind=kind, chunk=1, parallel=ctx.n(8, 8), stall=ctx.n(15, 60))
        for j in jobs:
            r = res[j["id"]]
            case = {"job": {k: j[k] for k in ("id", "engines", "scripts", "calls", "marks", "cgmap")}, "build": kind, "history": True}
            if kind == "plain":
                ctx.case(("cgmap", json.dumps(j["cgmap"]), json.dumps(j["scripts"], sort_keys=True)), nontrivial=True,
                         sample={"op": "simulate-cgmap", "engine": j["engines"][0], "cgmap": j["cgmap"]})
            if r["status"] != "ok":
                at = r["at"] if r["at"] is not None else len(r["results"])
                what = classify(r.get("stderr", ""), r["status"])
                ctx.violation("%s:simulate:cgmap" % what, "%s build: %s in simulate_script(…, cgmap=%s)" % (kind, what, j["cgmap"]), case,
                              impl={"status": r["status"], "stderr": r.get("stderr", "")[-600:]}, expected="the map is refused in Python, or the run is clean")
                continue
            x = r["results"][0]
            if "raised" in x:
                ctx.count("cgmap_refused_in_python_%s" % kind)
                if not any(m < -1 for m in j["cgmap"]) and min(j["cgmap"]) >= -1 and sorted(set(v for v in j["cgmap"] if v >= 0)) == list(range(max(j["cgmap"]) + 1)) and kind == "plain":
                    ctx.count("cgmap_valid_but_refused")
                continue
            ctx.count("cgmap_accepted_%s" % kind)
            for key, what, impl, exp in lc.init_failures(x):
                ctx.violation(key, "%s build, cgmap=%s: %s" % (kind, j["cgmap"], what), case, impl=impl, expected=exp)


KEY_CENTROIDS = "cgmap-coinciding-centroids"


def centroid_jobs(ctx):
    """the recorded known finding, always run: a valid index map whose groups have coinciding centroids gives a coarse edge
    of distance 0 (state NaN, NaN mean handed to std::poisson_distribution).  Stable key, whatever the build reports."""
    jobs = []
    for i, cg in enumerate([[2, 1, 0, 0, 1], [0, 1, 2, 2, 1]]):
        sysd = {"network": {"species": [{"label": "A", "density": 0, "D": 0.5}], "reactions": [], "environments": ["a"]},
                "space": {"type": "grid", "w": 5, "h": 1, "d": 1, "cell_volume": 1.0, "cell_env": [0] * 5, "boundary_conditions": {}},
                "state": [40.0, 12.0, 5.0, 30.0, 8.0]}
        S = {"system": sysd, "kw": {"t_sample": [0.0, 0.05], "time_step": 0.01, "t_max": 0.05, "sampling_policy": "on_t_sample", "rng_seed": 7 + i}}
        jobs.append({"id": "centroid%d" % i, "engines": ["tauleap"], "scripts": [S], "timeout": 20, "cgmap": cg, "directed": KEY_CENTROIDS,
                     "calls": [{"obj": 0, "call": "simulate_cg", "script": 0, "cgmap": cg}, {"obj": 0, "call": "finalize"}]})
    for kind in ("plain", "hard", "asan"):
        res = lc.run_jobs([dict(j) for j in jobs], kind=kind, chunk=1, parallel=2, stall=ctx.n(15, 60))
        for j in jobs:
            r = res[j["id"]]
            case = {"job": {k: j[k] for k in ("id", "engines", "scripts", "calls", "cgmap", "directed")}, "build": kind, "history": True}
            if kind == "plain":
                ctx.case(("centroid", json.dumps(j["cgmap"])), nontrivial=True, sample={"op": "simulate-cgmap", "engine": "tauleap", "cgmap": j["cgmap"], "directed": KEY_CENTROIDS})
            ctx.count("directed_cgmap_coinciding_centroids_" + kind)
            if r["status"] != "ok":
                what = classify(r.get("stderr", ""), r["status"])
                ctx.violation(KEY_CENTROIDS, "%s build: %s in simulate_script(…, tauleap, cgmap=%s) on a 5x1x1 grid (groups with coinciding centroids: coarse edge of distance 0)"
                              % (kind, what, j["cgmap"]), case, impl={"status": r["status"], "class": what, "stderr": r.get("stderr", "")[-400:]}, expected="a clean run")
                continue
            x = r["results"][0]
            if "raised" in x:
                ctx.violation(KEY_CENTROIDS, "%s build: simulate_script(…, cgmap=%s) raised %s for a valid map" % (kind, j["cgmap"], x["raised"]), case, impl=x["raised"], expected="a clean run")
                continue
            # the build did not stop: the trajectory must still be finite
            ret = x["ret"]
            import math
            if ret.get("nsamples", 0) < 1:
                ctx.violation(KEY_CENTROIDS, "%s build: simulate_script(…, cgmap=%s) returned no sample" % (kind, j["cgmap"]), case, impl=ret.get("nsamples"), expected=">= 1")


# ---------------------------------------------------------------------------------------------
# the caller goes on using ITS OWN script object while the simulation is open (c11_child.py)
# ---------------------------------------------------------------------------------------------
KEY_OUTBUF = "output-buffer-smaller-than-engine-writes"


def _run_c11_child(jobs, kind, parallel=8, chunk=3):
    """histories of c11_child.py on one build; {job id: {"status", "results", "at", "stderr"}}"""
    import os, shutil, tempfile
    from concurrent.futures import ThreadPoolExecutor
    so = common.build_engine(kind)
    kenv = {}
    if kind == "asan":
        full = lc.child_env("asan")
        kenv = {k: full[k] for k in ("LD_PRELOAD", "ASAN_OPTIONS", "UBSAN_OPTIONS")}
        kenv["PYTHONMALLOC"] = "malloc"      # ctypes buffers from malloc (not from pymalloc arenas): the sanitizer sees their bounds
    queue = [jobs[i:i + chunk] for i in range(0, len(jobs), chunk)]

    def work(ch):
        out = {}
        pending = list(ch)
        while pending:
            d = tempfile.mkdtemp(prefix="c11_jobs_")
            try:
                spec = os.path.join(d, "jobs.json")
                with open(spec, "w") as f:
                    json.dump({"so": so, "guard": kind != "asan", "jobs": [{k: v for k, v in j.items() if k != "info"} for j in pending]}, f)
                status, stdout = common.run_child("import sys; sys.argv = ['c11_child', %r]; import c11_child; c11_child.main()" % spec,
                                                  timeout=30 + 20 * len(pending), kind_env=dict(kenv, TMPDIR=d))
            finally:
                shutil.rmtree(d, ignore_errors=True)
            res, done, last_b, warn = {}, set(), None, {}
            for ln in (stdout or "").splitlines():
                if ln.startswith("R "):
                    try:
                        r = json.loads(ln[2:])
                    except ValueError:
                        continue
                    res.setdefault(r["job"], []).append(r)
                    last_b = None
                elif ln.startswith("B "):
                    jid, ci = ln[2:].rsplit(" ", 1)
                    last_b = (jid, int(ci))
                elif ln.startswith("W ") and last_b is not None:
                    try:
                        warn.setdefault(last_b[0], []).append(json.loads(ln[2:]))
                    except ValueError:
                        pass
                elif ln.startswith("J "):
                    done.add(ln[2:].strip())
            nxt, failed = [], False
            for j in pending:
                jid = j["id"]
                if jid in done:
                    out[jid] = {"status": "ok", "results": res.get(jid, []), "at": None, "stderr": ""}
                elif not failed:
                    if status == "ok":
                        raise common.CheckBroken("c11_child finished without completing job %s" % jid)
                    at = last_b[1] if (last_b is not None and last_b[0] == jid) else len(res.get(jid, []))
                    out[jid] = {"status": status, "results": res.get(jid, []), "at": at, "stderr": (stdout or "")[-1500:], "announced": warn.get(jid, [])}
                    failed = True
                else:
                    nxt.append(j)
            pending = nxt
        return out

    final = {}
    with ThreadPoolExecutor(max_workers=max(1, parallel)) as ex:
        for o in ex.map(work, queue):
            final.update(o)
    return final


def caller_script_jobs(ctx, n, tag="cs"):
    """setup(script) — the caller edits ITS script object (another system with fewer / more cells or species, another request
    list, another units system) at once / in the middle of the run / after the last step — further calls, two fetches,
    finalize, and the same script object set up again for the next run.  Judged at the native calls that write into a buffer."""
    rng = ctx.rng
    jobs = []
    for i in range(n):
        option = lc.OPTIONS[i % 3]
        mode = "none" if option == "euler" else "auto"
        ka = ["grid", "graph"][(i // 3) % 2]
        kb = ["grid", "graph"][(i // 6) % 2]
        pol = ["on_iteration", "on_t_sample", "on_interval"][(i // 2) % 3]
        Sa, ia = lc.gen_script(rng, option, space_kind=ka, units=False, max_steps=12, mode=mode, policy=pol, zero_tmax=False, degenerate=rng.random() < 0.3)
        want_smaller = (i % 4 != 3)
        for _ in range(40):
            Sb, ib = lc.gen_script(rng, option, space_kind=kb, units=False, max_steps=12, mode=mode, zero_tmax=False, degenerate=rng.random() < 0.5)
            sa, sb = ia["nsp"] * ia["n"], ib["nsp"] * ib["n"]
            if sa != sb and ((sb < sa) == want_smaller or sa == 1):
                break
        for S in (Sa, Sb):
            if not S["kw"]["t_sample"]:
                S["kw"]["t_sample"] = [0.0, S["kw"]["time_step"], 3 * S["kw"]["time_step"]]
            S["kw"].setdefault("t_max", max(S["kw"]["t_sample"]) + S["kw"]["time_step"])
        edits = [{"call": "edit_input", "script": 0, "what": "system", "from": 1}]
        if rng.random() < 0.5:
            edits.append({"call": "edit_input", "script": 0, "what": rng.choice(["t_sample", "units"]), "from": 1})
            rng.shuffle(edits)
        when = ["at_once", "mid_run", "after_last_step"][(i // 3) % 3]
        drive = [{"call": rng.choice(["iterate", "iterate", "sample", "iterate_n"]), "n": rng.randint(1, 4)} for _ in range(rng.randint(1, 4))]
        calls = [{"call": "setup", "script": 0}]
        if when == "at_once":
            calls += edits + drive
        elif when == "mid_run":
            calls += drive + edits + [{"call": "iterate"}, {"call": "sample"}]
        else:
            calls += drive + [{"call": "iterate_n", "n": 3000}] + edits
        calls += [{"call": "get_output"}, {"call": "sample"}, {"call": "get_progress"}, {"call": "get_output"}, {"call": "finalize"}]
        if rng.random() < 0.6:
            # the next run: the same (edited) script object
            calls += [{"call": "setup", "script": 0}, {"call": "iterate_n", "n": rng.randint(1, 50)}, {"call": "get_output"}, {"call": "finalize"}]
        jobs.append({"id": "%s%d" % (tag, i), "option": option, "scripts": [Sa, Sb], "calls": calls,
                     "info": {"when": when, "sizes": [ia["nsp"] * ia["n"], ib["nsp"] * ib["n"]], "spaces": [ka, kb], "policy": pol}})
    for kind in ("plain", "hard", "asan"):
        res = _run_c11_child(jobs, kind, parallel=ctx.n(8, 8))
        for j in jobs:
            r = res[j["id"]]
            info = j["info"]
            case = {"c11_child": True, "job": {k: j[k] for k in ("id", "option", "scripts", "calls", "info")}, "build": kind}
            ctx.count("caller_script_edit_%s_%s" % (info["when"], kind))
            if kind == "plain":
                ctx.count("caller_script_new_system_%s" % ("smaller" if info["sizes"][1] < info["sizes"][0] else "larger"))
                ctx.case(("caller-script", json.dumps(j["calls"]), json.dumps(j["scripts"], sort_keys=True)), nontrivial=True,
                         sample={"op": "caller-edits-its-script", "engine": j["option"], "when": info["when"], "state_sizes": info["sizes"], "spaces": info["spaces"]})
            for f in _outbuf_failures(j, r):
                ctx.violation(f[0], "%s build: %s" % (kind, f[1]), case, impl=f[2], expected=f[3])
            if r["status"] != "ok":
                at = r["at"]
                call = j["calls"][at]["call"] if at is not None and at < len(j["calls"]) else "end-of-job"
                what = classify(r.get("stderr", ""), r["status"])
                if r.get("announced"):
                    continue          # already reported with the sizes (the sanitizer stopped the announced write)
                ctx.violation("%s:%s:caller-script" % (what, call), "%s build: %s in %s() (call %d) after the caller edited its own script object (%s)"
                              % (kind, what, call, at, info["when"]), case, impl={"status": r["status"], "stderr": r.get("stderr", "")[-600:]},
                              expected="no memory error, no abort")
                continue
            raised = [x for x in r["results"] if "raised" in x]
            if raised:
                ctx.violation("raised", "a lifecycle call raised in a history of valid scripts (the caller edits its own script object): %s" % raised[0]["raised"], case)


def _outbuf_failures(job, r):
    """every native call that writes into a caller-provided buffer was handed at least as many doubles as the engine writes"""
    bad = []
    recs = [(x["i"], w) for x in r.get("results", []) for w in x.get("writes", [])] + [(r.get("at"), w) for w in r.get("announced", [])]
    for ci, w in recs:
        if w.get("too_small"):
            call = job["calls"][ci]["call"] if ci is not None and ci < len(job["calls"]) else "?"
            bad.append((KEY_OUTBUF + ":" + w["fn"].replace("engineexport_", ""),
                        "%s() (call %s): %s is handed a buffer of %d doubles, the engine writes %d (%d samples x %s values it was initialised with): "
                        "out-of-bounds write of %d bytes" % (call, ci, w["fn"], w["buffer_length"], w["engine_writes"], w["nsamples"], w["size"],
                                                             8 * (w["engine_writes"] - w["buffer_length"])),
                        w["buffer_length"], ">= %d" % w["engine_writes"]))
    return bad


# ---------------------------------------------------------------------------------------------
# event counts at the top of the int range (tau-leap): Poisson means in [2^24, 2^31)
# ---------------------------------------------------------------------------------------------
INT_MAX = 2 ** 31 - 1
KEY_EVENTS = "event-count-outside-int-range"


def _top_mean(rng):
    """a Poisson mean below 2^31 (at or beyond it the UNCHANGED std::poisson_distribution<int> does not return: known, repaired
    separately): INT_MAX minus little (within a few standard deviations, 46341, of the end of the range), or log-uniform above 2^24"""
    r = rng.random()
    if r < 0.45:
        return INT_MAX - rng.choice([1, 2, 647, 1000, 5000, 20000, 46341, 100000])
    if r < 0.7:
        return INT_MAX - rng.randint(1, 400000)
    if r < 0.85:
        return int(2 ** rng.uniform(30.5, 31)) - 2000 if rng.random() < 0.5 else rng.randint(2000000001, INT_MAX - 1000)
    return int(2 ** rng.uniform(24, 30.5)) | 1


def big_count_jobs(ctx, n, tag="bc"):
    """tau-leap steps whose event counts are Poisson draws with means at the top of the int range (molecule counts around and
    above 2^31 with rate constant x time step <= 1).  Reaction template: A -> B (irreversible, no diffusion): per cell and step
    the number of events e = A_before - A_after is an integer in [0, 2^31-1] and B grows by e.  Diffusion template: one species,
    one populated cell, one step: every neighbour receives e_j in [0, 2^31-1], the source loses their sum."""
    rng = ctx.rng
    jobs = []
    for i in range(n):
        kind_sp = ["grid", "graph"][i % 2]
        template = "reaction" if i % 3 != 2 else "diffusion"
        m = _top_mean(rng)
        ncell = rng.randint(1, 3) if template == "reaction" else rng.randint(2, 3)
        if template == "reaction":
            p = rng.choice([1.0, 1.0, 0.5, 0.25])                   # k * dt (exact in doubles)
            dt = rng.choice([1.0, 0.5, 0.25]) if p < 1 else rng.choice([1.0, 0.5, 2.0])
            k = p / dt
            nsteps = 1 if p == 1.0 else rng.randint(1, 3)
            big = int(m / p)                                        # k * big * dt <= m < 2^31 ; big itself up to 2^33
            A = [rng.choice([big, big, 0, 7, big - rng.randint(0, 5000)]) for _ in range(ncell)]
            A[rng.randrange(ncell)] = big
            B = [rng.choice([0, 0, 3, 2 ** 31 + 5]) for _ in range(ncell)]
            species = [{"label": "A", "density": 0, "D": 0}, {"label": "B", "density": 0, "D": 0}]
            reactions = [{"eq": "A -> B", "k+": k, "k-": 0}]
            state = [float(v) for v in A + B]
        else:
            # rate per channel = D (unit cells / unit nodes, unit surfaces and distances); p = D * dt per channel
            p = rng.choice([0.25, 0.125, 0.5])
            dt = rng.choice([1.0, 0.5])
            D = p / dt
            nsteps = 1
            big = int((m - 1000) / p)
            src = rng.randrange(ncell)
            A = [0] * ncell
            A[src] = big
            species = [{"label": "A", "density": 0, "D": D}]
            reactions = []
            state = [float(v) for v in A]
        net = {"species": species, "reactions": reactions, "environments": ["a"]}
        if kind_sp == "grid":
            space = {"type": "grid", "w": ncell, "h": 1, "d": 1, "cell_volume": 1.0, "cell_env": [0] * ncell, "boundary_conditions": {}}
            nbrs = {c: [j for j in (c - 1, c + 1) if 0 <= j < ncell] for c in range(ncell)}
        else:
            space = {"type": "graph", "nodes": [{"volume": 1.0, "environment": 0} for _ in range(ncell)],
                     "edges": [{"nodes": [c, c + 1], "surface": 1.0, "distance": 1.0} for c in range(ncell - 1)]}
            nbrs = {c: [j for j in (c - 1, c + 1) if 0 <= j < ncell] for c in range(ncell)}
        S = {"system": {"network": net, "space": space, "state": state},
             "kw": {"t_sample": [dt * q for q in range(nsteps + 1)], "time_step": dt, "t_max": dt * nsteps, "sampling_policy": "on_t_sample",
                    "rng_seed": rng.randint(0, 2 ** 31 - 1), "init_state_processing": "none"}}      # ("auto" redistributes the molecules over the cells: a cell may then exceed the bound on the mean)
        calls = [{"obj": 0, "call": "setup", "script": 0}, {"obj": 0, "call": "iterate_n", "n": nsteps + 2},
                 {"obj": 0, "call": "get_output", "full": True}, {"obj": 0, "call": "finalize"}]
        jobs.append({"id": "%s%d" % (tag, i), "engines": ["tauleap"], "scripts": [S], "calls": calls, "timeout": 20,
                     "info": {"template": template, "space": kind_sp, "ncell": ncell, "mean": m, "p": p, "nsteps": nsteps,
                              "nbrs": {str(c): v for c, v in nbrs.items()}}})
    for kind in ("plain", "hard", "asan"):
        res = lc.run_jobs([{k: v for k, v in j.items() if k != "info"} for j in jobs], kind=kind, chunk=ctx.n(3, 6), parallel=ctx.n(8, 8), stall=ctx.n(15, 60))
        for j in jobs:
            r = res[j["id"]]
            info = j["info"]
            case = {"job": {k: j[k] for k in ("id", "engines", "scripts", "calls", "info")}, "build": kind, "big_counts": True}
            ctx.count("big_counts_%s_%s_%s" % (info["template"], info["space"], kind))
            if kind == "plain":
                ctx.count("poisson_mean_%s" % ("within_1e6_of_int_max" if INT_MAX - info["mean"] <= 10 ** 6 else ("above_2e9" if info["mean"] > 2 * 10 ** 9 else "2^24_to_2e9")))
                ctx.case(("big-counts", json.dumps(j["scripts"], sort_keys=True)), nontrivial=True,
                         sample={"op": "tauleap-top-of-int-range", "template": info["template"], "space": info["space"], "poisson_mean": info["mean"]})
            if r["status"] != "ok":
                at = r["at"] if r["at"] is not None else len(r["results"])
                call = j["calls"][at]["call"] if at < len(j["calls"]) else "end-of-job"
                what = classify(r.get("stderr", ""), r["status"])
                if r["status"] == "timeout":
                    what = "hang"
                ctx.violation("%s:%s:big-counts" % (what, call), "%s build: %s in %s() of a tau-leap run with a Poisson mean of %d (< 2^31)" % (kind, what, call, info["mean"]),
                              case, impl={"status": r["status"], "stderr": r.get("stderr", "")[-600:]}, expected="no undefined arithmetic, no abort, the call returns")
                continue
            raised = [x for x in r["results"] if "raised" in x]
            if raised:
                ctx.violation("raised", "a lifecycle call raised on a valid script with large molecule counts: %s" % raised[0]["raised"], case)
                continue
            for x in r["results"]:
                for key, what, impl, exp in lc.init_failures(x):
                    ctx.violation(key, "%s build: %s" % (kind, what), case, impl=impl, expected=exp)
            ret = [x["ret"] for c, x in zip(j["calls"], r["results"]) if c["call"] == "get_output"][0]
            f = event_count_failure(j["scripts"][0], info, ret)
            if f:
                ctx.violation(KEY_EVENTS + ":" + info["template"], "%s build: %s" % (kind, f[0]), case, impl=f[1], expected=f[2])


def event_count_failure(S, info, ret):
    """the property's predicate on the trajectory (species-major records): every event count of a step is a non-negative whole number
    within 10 standard deviations of its Poisson mean (since fix30 the counts are `long long`: a count may exceed 2^31-1; a value that went
    through a narrower integer type, or an undefined double-to-int conversion, shows as a negative or far-off count)"""
    import math
    nc = info["ncell"]
    data = ret.get("data") or []
    nsp = 2 if info["template"] == "reaction" else 1
    size = nsp * nc
    if not data or len(data) % size or any(not math.isfinite(v) for v in data):
        return ("the trajectory holds %d values (records of %d), or non-finite ones" % (len(data), size), data[:8], "finite records")
    recs = [data[q:q + size] for q in range(0, len(data), size)]
    if recs[0] != [float(v) for v in S["system"]["state"]]:
        return ("the record at t = 0 is not the script's state", recs[0][:8], S["system"]["state"][:8])
    for q in range(1, len(recs)):
        a, b = recs[q - 1], recs[q]
        if info["template"] == "reaction":
            for c in range(nc):
                e = a[c] - b[c]
                mean = a[c] * info["p"]
                if not (0 <= e and e == int(e) and abs(e - mean) <= 10 * math.sqrt(max(mean, 1)) + 10):
                    return ("step %d, cell %d: A goes from %d to %d: %d events of A -> B (Poisson mean %s): not a non-negative whole number within 10 standard "
                            "deviations of the mean (a count converted through a too-narrow integer type wraps)" % (q, c, a[c], b[c], e, mean),
                            e, "0 <= events, |events - mean| <= 10 sqrt(mean) + 10")
                if b[nc + c] - a[nc + c] != e:
                    return ("step %d, cell %d: A loses %d, B gains %d" % (q, c, e, b[nc + c] - a[nc + c]), b[nc + c] - a[nc + c], e)
        else:
            src = [c for c in range(nc) if a[c] != 0]
            if q > 1 or len(src) != 1:
                break
            s = src[0]
            got = 0
            for c in range(nc):
                if c == s:
                    continue
                e = b[c] - a[c]
                if c not in info["nbrs"][str(s)]:
                    if e != 0:
                        return ("cell %d, not a neighbour of the populated cell %d, changes by %d" % (c, s, e), e, 0)
                    continue
                mean = a[s] * info["p"]
                if not (0 <= e and e == int(e) and abs(e - mean) <= 10 * math.sqrt(max(mean, 1)) + 10):
                    return ("step 1: %d molecules hop from cell %d to cell %d (Poisson mean %s): not a non-negative whole number within 10 standard deviations "
                            "of the mean" % (e, s, c, mean), e, "0 <= events, |events - mean| <= 10 sqrt(mean) + 10")
                got += e
            if a[s] - b[s] != got:
                return ("the populated cell loses %d, its neighbours gain %d" % (a[s] - b[s], got), a[s] - b[s], got)
    return None


def run(ctx):
    centroid_jobs(ctx)
    explore(ctx, ctx.n(105, 3000), ctx.n(24, 600), p_degenerate=0.6, tag="m")
    abandon_histories(ctx, ctx.n(8, 48))
    cgmap_jobs(ctx, ctx.n(10, 60))
    caller_script_jobs(ctx, ctx.n(12, 120))
    big_count_jobs(ctx, ctx.n(12, 120))
    if not _unlisted(ctx):
        checked_correspondence(ctx)
    # the runner starts the failing-input search only when NO violation was reported; this check always reports the listed
    # known finding, so it starts the search itself when something is broken and nothing unlisted was found
    if ctx.broken and not _unlisted(ctx):
        search(ctx)
    ctx.notes.append("partial by nature: engine_never_faults is proved on the checked-access MODEL of the engine (all six algorithms, Init, "
                     "sampler, exports, lifecycle; validated against the real engine step by step: op checked_step); the compiled "
                     "engine's memory behaviour is observed with hardened / sanitizer builds on sampled inputs")


def _unlisted(ctx):
    known, _ = common.known_findings(ID)
    return [v for v in ctx.violations if v["key"] not in known]


def search(ctx):
    """failing-input search (an anchor, a theorem or the correspondence is broken, no failing input known yet): the hardened
    and the sanitizer builds over a larger set of degenerate shapes, coarse steps and histories than the quick tier, until
    the time budget is used"""
    if ctx.extra.get("searched"):
        return
    ctx.extra["searched"] = True
    rounds = 0
    while ctx.time_left() > 40 and not _unlisted(ctx) and rounds < 30:
        ctx.count("search_rounds")
        explore(ctx, 240, 60, p_degenerate=0.9, tag="x%d_" % rounds, with_model=False, p_coarse=0.5)
        rounds += 1
    ctx.notes.append("search(): %d extra rounds of 240 degenerate scripts on the hardened build (60 of them also under ASan/UBSan)" % rounds)


def explore(ctx, n, n_asan, p_degenerate=0.6, tag="m", with_model=True, p_coarse=0.3):
    rng = ctx.rng
    jobs = []
    for i in range(n):
        option = lc.OPTIONS[i % 3]
        coarse = (option != "gillespie") and rng.random() < p_coarse
        # every block of 12 jobs holds the 3 engines x 4 processing modes on one space type, two blocks both space types
        kw = {"degenerate": rng.random() < p_degenerate, "policy": lc.POLICIES[(i // 3) % 4], "mode": MODES[(i // 3 + i // 12) % 4],
              "max_steps": 40 if option != "gillespie" else 12, "space_kind": ["grid", "graph"][(i // 12) % 2],
              # every fifth job: 1-2 species with more directed reactions than 6 * n_species (sizes in n_reactions vs n_species vs slots)
              "many_reactions": (i % 5 == 4)}
        if i % 6 == 1:
            kw["chem_file"] = True            # chemostat map loaded from a text file with the values over several lines
        if i % 6 == 3:
            kw["refuse_space"] = True         # a refused `system.space = …` (undefined environment), caught, then the system is used
        if i % 24 in (2, 13):
            # on_interval with t / sampling_interval beyond 2^31 (a few steps of 1 s, interval around 1 ns); always in the sanitizer subset
            kw.update(huge_ratio=True, policy="on_interval")
            coarse = False
        mutate = ["script_system", "script_units", "script_system", "system_state"][(i // 4) % 4] if i % 4 == 2 else None
        jobs.append(make_job(rng, "%s%d" % (tag, i), option, coarse=coarse, dup=(rng.random() < 0.4), mutate=mutate, **kw))
    # the sanitizer subset: first one job per (engine, space, processing mode), then jobs with repeated request times, then the rest
    first, rest = {}, []
    for j in jobs:
        key = (j["info"]["option"], j["info"]["space"], j["info"]["mode"])
        if key not in first:
            first[key] = j
        else:
            rest.append(j)
    rest.sort(key=lambda j: 0 if (j["info"].get("huge_ratio") or j["info"].get("mutate_out") == "script_system") else (1 if j["info"].get("duplicates") else 2))
    huge = [j for j in rest if j["info"].get("huge_ratio") or j["info"].get("mutate_out") == "script_system"][:10]
    asan_jobs = (list(first.values()) + rest)[:max(n_asan, len(first) + len(huge))]
    ctx.count("asan_mode_engine_space_combinations", len(first))
    res = {}
    builds = [("plain", jobs), ("hard", jobs), ("asan", asan_jobs)]
    for kind, js in builds:
        res[kind] = lc.run_jobs([dict(j) for j in js], kind=kind, chunk=ctx.n(8, 40), parallel=ctx.n(8, 8), stall=ctx.n(15, 60))
    ops, metas = [], []
    for job in jobs:
        info = job["info"]
        case = {"job": {k: job[k] for k in ("id", "engines", "scripts", "calls", "info")}}
        for key in ("option", "policy", "style", "space", "mode"):
            ctx.count("%s_%s" % (key, info[key]))
        ctx.count("coarse" if info.get("coarse") else "fine")
        for op in info.get("system_ops", []):
            ctx.count("system_op_" + op)
        if info.get("mutate_out"):
            ctx.count("returned_object_modified_" + info["mutate_out"])
        if info.get("huge_ratio"):
            ctx.count("interval_ratio_beyond_2^31_%s_%s" % (info["option"], info["space"]))
        if info.get("many_reactions"):
            ctx.count("many_reactions_%s_%s" % (info["option"], info["space"]))
        if info["n_directed_reactions"] > 6 * info["nsp"]:
            ctx.count("n_reactions_gt_6_n_species")
        if info["nsp"] > info["n_directed_reactions"]:
            ctx.count("n_species_gt_n_reactions")
        hashes = {}
        steps = 0
        for kind, _ in builds:
            r = res[kind].get(job["id"])
            if r is None:
                continue
            ctx.count("runs_" + kind)
            if r["status"] != "ok":
                for x in r["results"]:
                    for key, what, impl, exp in lc.init_failures(x) + lc.edit_failures(x):
                        ctx.violation(key, "%s build: %s" % (kind, what), dict(case, build=kind), impl=impl, expected=exp)
                at = r["at"] if r["at"] is not None else len(r["results"])
                call = job["calls"][at]["call"] if at < len(job["calls"]) else "end-of-job"
                what = classify(r.get("stderr", ""), r["status"])
                if kind == "plain" and r["status"] == "timeout":
                    what = "hang"
                ctx.violation("%s:%s" % (what, call), "%s build: %s in %s() (call %d)" % (kind, what, call, at), dict(case, build=kind),
                              impl={"status": r["status"], "stderr": r.get("stderr", "")[-600:]}, expected="no memory error, no abort")
                continue
            raised = [x for x in r["results"] if "raised" in x]
            if raised:
                if not (info["style"] == "empty" and not info["explicit_tmax"]):
                    ctx.violation("raised", "a lifecycle call raised on a valid script: %s" % raised[0]["raised"], dict(case, build=kind))
                continue
            for x in r["results"]:
                for key, what, impl, exp in lc.init_failures(x) + lc.edit_failures(x):
                    ctx.violation(key, "%s build: %s" % (kind, what), dict(case, build=kind), impl=impl, expected=exp)
            for (ci, key, what, impl, exp) in lc.refetch_failures(job["calls"], r["results"]):
                ctx.violation(key, "%s build: call %d: %s" % (kind, ci, what), dict(case, build=kind), impl=impl, expected=exp)
            outs = [x["ret"]["hash"] for c, x in zip(job["calls"], r["results"]) if c["call"] == "get_output"]
            hashes[kind] = outs
            if kind == "hard":
                ob = c09.unpack({"calls": job["calls"][:len(r["results"])], "info": info}, {"status": "ok", "results": r["results"]})
                steps = len(ob["T"])
                if not info.get("coarse"):
                    ops.append(c09.model_op(job, ob))
                    metas.append((job, ob, case))
        ctx.case(json.dumps(job["scripts"], sort_keys=True), nontrivial=steps >= 2,
                 sample={"op": "hardened-run", "engine": info["option"], "space": info["space"], "policy": info["policy"], "style": info["style"],
                         "mode": info["mode"], "steps": steps, "builds": sorted(hashes)})
        # a result never depends on memory outside the arrays: the instrumented builds give the same bytes
        # (the sanitizer build is compiled with other code generation; it is compared for the deterministic engine and the
        # exact integer arithmetic of the stochastic ones)
        if "plain" in hashes and "hard" in hashes and hashes["plain"] != hashes["hard"]:
            ctx.violation("result-depends-on-build", "trajectories differ bitwise between the plain and the assertion-hardened build",
                          case, impl=hashes["hard"], expected=hashes["plain"])
    answers = ctx.model.run(ops) if (ops and with_model) else []
    for (job, ob, case), ans in zip(metas, answers):
        if ans is None:
            continue
        if "ok" not in ans:
            ctx.disagree("lifecycle", case, "trajectory", ans)
            continue
        d = c09.compare_model(job, ob, ans)
        if d is not None:
            ctx.disagree("lifecycle", case, d[0], d[1])


def replay(ctx, rec):
    case = rec.get("case", rec)
    job = dict(case["job"])
    kind = case.get("build", "hard")
    if case.get("c11_child"):
        r = _run_c11_child([job], kind, parallel=1)[str(job["id"])]
        detail = {"build": kind, "status": r["status"], "at": r["at"], "stderr": r.get("stderr", "")[-800:]}
        bad = _outbuf_failures(job, r)
        if bad:
            detail["output_buffers"] = [{"key": f[0], "what": f[1]} for f in bad[:3]]
            return False, detail
        if r["status"] != "ok":
            detail["class"] = classify(r.get("stderr", ""), r["status"])
            return False, detail
        raised = [x["raised"] for x in r["results"] if "raised" in x]
        if raised:
            detail["raised"] = raised[0]
            return False, detail
        return True, detail
    job.setdefault("timeout", 20)
    res = lc.run_jobs([job], kind=kind, parallel=1, stall=60)
    r = res[str(job["id"])]
    detail = {"build": kind, "status": r["status"], "at": r["at"], "stderr": r.get("stderr", "")[-800:]}
    if r["status"] != "ok":
        detail["class"] = classify(r.get("stderr", ""), r["status"])
        return False, detail
    inits = [f for x in r["results"] for f in lc.init_failures(x) + lc.edit_failures(x)]
    inits += [(f[1], f[2]) for f in lc.refetch_failures(job["calls"], r["results"])]
    if inits:
        detail["marshalling"] = [{"key": f[0], "what": f[1]} for f in inits[:3]]
        return False, detail
    if case.get("big_counts"):
        ret = [x["ret"] for c, x in zip(job["calls"], r["results"]) if c["call"] == "get_output"][0]
        f = event_count_failure(job["scripts"][0], job["info"], ret)
        if f:
            detail["event_counts"] = f[0]
            return False, detail
    if rec.get("key") == "result-depends-on-build":
        res2 = lc.run_jobs([dict(job)], kind="plain", parallel=1, stall=60)
        h1 = [x["ret"]["hash"] for c, x in zip(job["calls"], r["results"]) if c["call"] == "get_output"]
        h2 = [x["ret"]["hash"] for c, x in zip(job["calls"], res2[str(job["id"])]["results"]) if c["call"] == "get_output"]
        detail.update(hard=h1, plain=h2)
        return h1 == h2, detail
    return True, detail
