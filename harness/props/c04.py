"""C04 — Physical results do not depend on the units used to state or report them.

Theorems: lean/Strengths/Props/C04.lean (model `Model/Build.lean` of units inheritance + process_unitvar_input; Spec
`rescale`; rate homogeneity; Euler step commutes with unit conversion; trajectory invariance by induction).
Correspondence: op `build_system` (description -> SI system and state) against `rdscript_from_dict` / `rdsystem_from_dict`
on both members of every pair, plus a malformed stream (wrong-dimension explicit values, invalid "units").
Oracle on the real code: pairs (d, rescale σ d) — the same physical script written with other units at randomly chosen
nesting levels (script / system / network / space / species / reaction / node / edge; declaration changed, removed or
added; bare numbers re-scaled or replaced by explicit unit strings, incl. litre / molar forms) — must give the same
initial state, chemostat map, rate of change and Euler trajectory (fixed number of steps, on_iteration) in SI; the
requested output units only change the scale.
"""
import copy, json
from fractions import Fraction
import common
from common import frac, rstr, rparse, close
import determ_lib as L
import engine_io
from props import c01 as C1

_builtin_float = float


def float(x):  # noqa: A001 — overflow-safe: a huge exact rational becomes ±inf instead of raising OverflowError
    try:
        return _builtin_float(x)
    except OverflowError:
        return _builtin_float("inf") if x > 0 else _builtin_float("-inf")


ID = "C04"
LEAN_TARGETS = ["Strengths.Props.C04", "Strengths.Props.C04Marshal"]
PROP_FILES = ["Strengths/Props/C04.lean", "Strengths/Props/C04Marshal.lean"]
GEN_GROUPS = ["Units", "IndexPy", "EngineCpp", "KineticsPy"]
RULE = ("pairs (d, rescale σ d): d a random script description (systems as in C01, units declared / inherited / 'default' at every "
        "level), σ a random choice per nesting level of {keep, declare a new system drawn from all 11x10x10, drop the declaration} "
        "and per bare number of {re-scale, replace by an explicit unit string in yet another system, incl. L / M forms}; compared: "
        "state, chemostats, compute_dstatedt in two random output systems, 4 Euler steps; size-1 systems with a reaction of order 0 "
        "or >= 2: RDSystem.make_dxdtf(units_system=U) for two U whose space unit differs from the system's own, on both members, "
        "against the rate law and compute_dstatedt; a pair is non-trivial when at least one "
        "level's resolved system differs between the members; distinct by (description fingerprint, σ)")
ASSUMPTIONS = C1.ASSUMPTIONS + ["re-scaled bare numbers are rounded to the nearest double (1e-16 relative), far below the 1e-9 comparison tolerance"]
TRUSTED = C1.TRUSTED
TOL = 1e-9

LEVELS = ["script", "system", "network", "space", "species", "reaction", "node", "edge"]


def resolve(decl, parent, script_level=False):
    if decl is None:
        return L.DEFAULT_SYS if script_level else tuple(parent)
    if decl == "inherit":
        return tuple(parent)
    if decl == "default":
        return L.DEFAULT_SYS
    if isinstance(decl, dict):
        return tuple(decl.get(k, L.DEFAULT_SYS[i]) for i, k in enumerate(("space", "time", "quantity")))
    raise ValueError("bad units declaration %r" % (decl,))


def parse_eq(eq, labels):
    def side(txt):
        v = [0] * len(labels)
        for tok in txt.split("+"):
            t = tok.split()
            if not t:
                continue
            c, lab = (1, t[0]) if len(t) == 1 else (int(t[0]), t[1])
            v[labels.index(lab)] += c
        return v
    a, b = eq.split("->")
    return side(a), side(b)


MOLAR = {"kM": "k", "M": "", "dM": "d", "cM": "c", "mM": "m", "µM": "µ", "nM": "n", "pM": "p", "fM": "f"}
LITRE = {"kL": "k", "L": "", "mL": "m", "µL": "µ", "nL": "n", "pL": "p", "fL": "f"}


class Rescaler:
    def __init__(self, rng, p_change=0.4, p_drop=0.12, p_explicit=0.2, force_script_time=None):
        self.rng, self.p_change, self.p_drop, self.p_explicit = rng, p_change, p_drop, p_explicit
        self.force_script_time = force_script_time      # the re-scaled script uses this time unit (small-step pairs)
        self.changed = []       # levels whose resolved system changed
        self.explicit = 0

    def units(self, d, level, old_parent, new_parent, script_level=False):
        rng = self.rng
        old = resolve(d.get("units"), old_parent, script_level)
        r = rng.random()
        if script_level and self.force_script_time:
            new = (rng.choice(L.SPACE), self.force_script_time, rng.choice(L.QTY))
            d["units"] = L.sysj(new)
        elif r < self.p_change:
            new = L.rand_sys(rng)
            dd = L.sysj(new)
            for i, k in enumerate(("space", "time", "quantity")):
                if new[i] == L.DEFAULT_SYS[i] and rng.random() < 0.5:
                    del dd[k]               # omitted keys default to µm / s / molecule
            d["units"] = dd
        elif r < self.p_change + self.p_drop and "units" in d:
            del d["units"]
            new = L.DEFAULT_SYS if script_level else tuple(new_parent)
        elif r < self.p_change + self.p_drop + 0.05 and not script_level:
            d["units"] = "inherit"
            new = tuple(new_parent)
        else:
            new = resolve(d.get("units"), new_parent, script_level)
        if new != old:
            self.changed.append(level)
        return old, new

    def explicit_text(self, si, dim):
        rng = self.rng
        if tuple(dim) == L.D_DENS and rng.random() < 0.4:
            sym = rng.choice(list(MOLAR))
            f = L.PREFIX[MOLAR[sym]] * L.NA / Fraction(1, 1000)
            return "%r %s" % (float(si / f), sym)
        if tuple(dim) == L.D_VOL and rng.random() < 0.4:
            sym = rng.choice(list(LITRE))
            f = L.PREFIX[LITRE[sym]] * Fraction(1, 1000)
            return "%r %s" % (float(si / f), sym)
        u = L.rand_sys(rng)
        txt = L.units_text(u, dim)
        if rng.random() < 0.3 and dim[1] < 0:
            # the "/" spelling of negative exponents
            parts = [p for p in (L.units_text(u, (dim[0], 0, dim[2])),) if p]
            txt = (parts[0] if parts else "") + "/" + (u[1] if dim[1] == -1 else "%s%d" % (u[1], -dim[1]))
            if not parts:
                txt = L.units_text(u, dim)
        return "%r %s" % (float(si / L.si_factor(u, dim)), txt)

    def num(self, v, dim, old, new):
        if isinstance(v, str):
            return v                         # explicit quantities keep their physical value
        si = Fraction(v) * L.si_factor(old, dim)
        if self.rng.random() < self.p_explicit:
            self.explicit += 1
            return self.explicit_text(si, dim)
        if old == new:
            return v
        return float(si / L.si_factor(new, dim))

    def envnum(self, v, dim, old, new):
        if isinstance(v, dict):
            return {k: self.num(x, dim, old, new) for k, x in v.items()}
        return self.num(v, dim, old, new)

    def script(self, sd):
        sd = copy.deepcopy(sd)
        o, n = self.units(sd, "script", L.DEFAULT_SYS, L.DEFAULT_SYS, script_level=True)
        for k in ("time_step", "t_max", "sampling_interval"):
            if k in sd:
                sd[k] = self.num(sd[k], L.D_TIME, o, n)
        if "t_sample" in sd and o != n and isinstance(sd["t_sample"], list):
            sd["t_sample"] = [float(Fraction(v) * L.si_factor(o, L.D_TIME) / L.si_factor(n, L.D_TIME)) for v in sd["t_sample"]]
        sd["system"] = self.system(sd["system"], o, n)
        return sd

    def system(self, d, old_parent, new_parent):
        d = copy.deepcopy(d)
        o, n = self.units(d, "system", old_parent, new_parent)
        if isinstance(d.get("state"), list):
            d["state"] = [float(Fraction(v) * L.si_factor(o, L.D_QTY) / L.si_factor(n, L.D_QTY)) if o != n else v for v in d["state"]]
        net = d["network"]
        no, nn = self.units(net, "network", o, n)
        labels = [s["label"] for s in net["species"]]
        for sp in net["species"]:
            so, sn = self.units(sp, "species", no, nn)
            if "D" in sp:
                sp["D"] = self.envnum(sp["D"], L.D_DIFF, so, sn)
            if "density" in sp:
                sp["density"] = self.envnum(sp["density"], L.D_DENS, so, sn)
        for r in net.get("reactions", []):
            ro, rn = self.units(r, "reaction", no, nn)
            sub, prod = parse_eq(r["eq"], labels)
            if "k+" in r:
                r["k+"] = self.envnum(r["k+"], L.k_dim(sum(sub)), ro, rn)
            if "k-" in r:
                r["k-"] = self.envnum(r["k-"], L.k_dim(sum(prod)), ro, rn)
        sp = d["space"]
        po, pn = self.units(sp, "space", o, n)
        if sp.get("type", "grid") == "grid":
            if "cell_volume" in sp:
                sp["cell_volume"] = self.num(sp["cell_volume"], L.D_VOL, po, pn)
            elif po != pn:
                sp["cell_volume"] = self.num(1, L.D_VOL, po, pn)      # the default volume 1 is a bare number of this level too
        else:
            for nd in sp["nodes"]:
                a, b = self.units(nd, "node", po, pn)
                nd["volume"] = self.num(nd.get("volume", 1), L.D_VOL, a, b)
            for ed in sp["edges"]:
                a, b = self.units(ed, "edge", po, pn)
                ed["surface"] = self.num(ed.get("surface", 1), L.D_SFC, a, b)
                ed["distance"] = self.num(ed.get("distance", 1), L.D_LEN, a, b)
        return d


# ------------------------------------------------------------------------------------------------ description -> model JSON
def udj(d):
    return d.get("units")


def numj(v):
    if isinstance(v, str):
        tok = v.split()
        return {"num": rstr(float(tok[0])), "unit": " ".join(tok[1:])}
    return {"bare": rstr(v)}


def envnumj(v):
    if isinstance(v, dict):
        return {"dict": [[k, numj(x)] for k, x in v.items()]}
    return numj(v)


def descj(d):
    net = d["network"]
    labels = [s["label"] for s in net["species"]]
    species = []
    for sp in net["species"]:
        ch = sp.get("chstt")
        species.append({"units": udj(sp), "D": envnumj(sp["D"]) if "D" in sp else None,
                        "density": envnumj(sp["density"]) if "density" in sp else None,
                        "chstt": None if ch is None else (bool(ch) if not isinstance(ch, dict) else [[k, bool(v)] for k, v in ch.items()])})
    reactions = []
    for r in net.get("reactions", []):
        sub, prod = parse_eq(r["eq"], labels)
        reactions.append({"units": udj(r), "sub": sub, "prod": prod, "kf": envnumj(r["k+"]) if "k+" in r else None,
                          "kr": envnumj(r["k-"]) if "k-" in r else None})
    sp = d["space"]
    if sp.get("type", "grid") == "grid":
        bc = sp.get("boundary_conditions", {})
        spj = {"kind": "grid", "units": udj(sp), "w": sp.get("w", 1), "h": sp.get("h", 1), "d": sp.get("d", 1),
               "px": bc.get("x") == "periodical", "py": bc.get("y") == "periodical", "pz": bc.get("z") == "periodical",
               "env": sp.get("cell_env"), "vol": numj(sp["cell_volume"]) if "cell_volume" in sp else None}
    else:
        spj = {"kind": "graph", "units": udj(sp),
               "nodes": [{"units": udj(nd), "vol": numj(nd["volume"]) if "volume" in nd else None, "env": nd.get("environment")} for nd in sp["nodes"]],
               "edges": [{"units": udj(ed), "i": ed["nodes"][0], "j": ed["nodes"][1], "sfc": numj(ed["surface"]) if "surface" in ed else None,
                          "dst": numj(ed["distance"]) if "distance" in ed else None} for ed in sp["edges"]]}
    return {"units": udj(d), "network": {"units": udj(net), "envs": net.get("environments"), "species": species, "reactions": reactions},
            "space": spj, "state": [rstr(v) for v in d["state"]] if isinstance(d.get("state"), list) else None,
            "chem": d.get("chemostats")}


def canon_sysj(sj):
    """comparable form of a "sys" object: dict entries sorted, rationals parsed"""
    def q(x):
        return (rparse(x["si"]), tuple(x["dim"]))

    def ev(x):
        return ("q", q(x["q"])) if "q" in x else ("dict", sorted((k, q(v)) for k, v in x["dict"]))
    sp = sj["space"]
    if sp["kind"] == "grid":
        spc = ("grid", sp["w"], sp["h"], sp["d"], sp["px"], sp["py"], sp["pz"], q(sp["vol"]), tuple(sp["env"]))
    else:
        spc = ("graph", tuple((q(n["vol"]), n["env"]) for n in sp["nodes"]), tuple((e["i"], e["j"], q(e["sfc"]), q(e["dst"])) for e in sp["edges"]))
    return {"ns": sj["ns"], "envs": list(sj["envs"]), "D": [ev(x) for x in sj["D"]],
            "reactions": [(tuple(r["sub"]), tuple(r["prod"]), ev(r["kf"]), ev(r["kr"])) for r in sj["reactions"]], "space": spc, "chem": list(sj["chem"])}


def same_canon(a, b, rel=1e-12):
    """structural equality with a relative tolerance on rationals"""
    if isinstance(a, Fraction) or isinstance(b, Fraction):
        if not (isinstance(a, (Fraction, int)) and isinstance(b, (Fraction, int))):
            return False
        return abs(Fraction(a) - Fraction(b)) <= Fraction(rel) * max(abs(Fraction(a)), abs(Fraction(b)))
    if isinstance(a, (list, tuple)) and isinstance(b, (list, tuple)):
        return len(a) == len(b) and all(same_canon(x, y, rel) for x, y in zip(a, b))
    if isinstance(a, dict) and isinstance(b, dict):
        return sorted(a) == sorted(b) and all(same_canon(a[k], b[k], rel) for k in a)
    return a == b


# ------------------------------------------------------------------------------------------------ running one member of a pair
def build_script(sd):
    import strengths as st
    return st.rdscript_from_dict(L.spell_units_keys(sd))       # every level's units key under one of its accepted aliases


def refused_state_assignment(system):
    """try to assign a state of the wrong dimension (concentrations); returns None when it was refused (as it must be), else a
    description of what was accepted.  The object must afterwards be exactly as before (judged by the pair comparison)."""
    from strengths.units import UnitArray
    n = len(system.state.value)
    try:
        system.state = UnitArray([3.0 + k for k in range(n)], "molecule/µm3")
    except Exception:  # noqa
        return None
    return "system.state = UnitArray(..., 'molecule/µm3') was accepted"


def draw_writes(fp, phys):
    """two `set_state` calls on distinct entries, drawn from a generator of their own (the main stream is not disturbed):
    one bare number (an amount in the SYSTEM's units), one UnitValue in some third quantity unit"""
    import random, zlib
    r = random.Random(zlib.crc32(repr(fp).encode("utf-8")))
    n, ns = phys["n"], phys["ns"]
    es = r.sample(range(ns * n), 2) if ns * n >= 2 else [0]
    amounts = [r.choice([3, 40, 2.5, 12, 7, 0.75, 100.25]) for _ in es]      # of the size of the generated states
    forms = ["bare", "unitvalue"][:len(es)]
    r.shuffle(forms)
    return [{"s": e // n, "c": e % n, "e": e, "amount_molecules": a, "form": f, "unit": r.choice(L.QTY)} for e, a, f in zip(es, amounts, forms)]


def apply_writes(system, writes, own):
    """RDSystem.set_state(species, cell, value); returns what get_state gives back (SI) per write"""
    from strengths.units import UnitValue
    got = []
    for w in writes:
        amount = Fraction(w["amount_molecules"])
        if w["form"] == "bare":
            given = float(amount / L.si_factor(own, L.D_QTY))            # a bare number is an amount in the system's own units
            system.set_state(w["s"], w["c"], given)
            txt = "set_state(%d, %d, %r) [bare number; the system's units are %s]" % (w["s"], w["c"], given, list(own))
        else:
            given = float(amount / L.si_qty(w["unit"]))
            system.set_state(w["s"], w["c"], UnitValue(given, w["unit"]))
            txt = "set_state(%d, %d, UnitValue(%r, %r))" % (w["s"], w["c"], given, w["unit"])
        back = system.get_state(w["s"], w["c"])
        si, dim = L.q_of(back)
        got.append({"call": txt, "get_state_si": si, "get_state_dim": tuple(dim)})
    return got


def member(sd, U1, nsteps, refuse=False, writes=None):
    """everything observed on one member: state, chem, dstate in U1, Euler samples — all in SI.  With `refuse`, a refused
    assignment of a wrong-dimension state is attempted on the system first (and on the script's own copy)."""
    import strengths.kinetics as kin
    script = build_script(sd)
    system = script.system
    out = {"script": script, "system": system}
    if refuse:
        out["accepted"] = refused_state_assignment(system)
    out["state_built"] = L.state_si(system.state)
    if writes:
        own = resolve(sd["system"].get("units"), resolve(sd.get("units"), L.DEFAULT_SYS, script_level=True))
        net = resolve(sd["system"]["network"].get("units"), own)
        out["own_units"], out["net_units"] = own, net
        out["set_state"] = apply_writes(system, writes, own)
    out["state"] = L.state_si(system.state)
    out["chem"] = [int(v) for v in system.chemostats]
    try:
        arr = kin.compute_dstatedt(system, None, True, L.us_obj(U1))
        f = L.si_factor(L.sys_of(arr.units.sys), L.dim_of(arr.units.dim))
        out["dstate"] = [Fraction(float(v)) * f for v in arr.value]
        out["dstate_units"] = (L.sys_of(arr.units.sys), L.dim_of(arr.units.dim))
    except Exception as ex:  # noqa
        out["dstate"] = ("error", type(ex).__name__)
    eng = common.load_engine("euler", "plain")
    eng.setup(script)
    for _ in range(nsteps):
        eng.iterate()
    traj = eng.get_output()
    eng.finalize()
    out["traj_units"] = (L.sys_of(traj.data.units.sys), L.sys_of(traj.t.units.sys), L.sys_of(script.units_system))
    out["dt_si"] = L.q_of(script.time_step)[0]
    out["tmax_si"] = L.q_of(script.t_max)[0]
    mol = traj.data.convert("molecule")
    sec = traj.t.convert("s")
    ns, nc = traj.nspecies(), traj.ncells()
    out["traj"] = [[float(v) for v in row] for row in __import__("numpy").asarray(mol.value, dtype="float64").reshape((traj.nsamples(), ns * nc))]
    out["t"] = [float(v) for v in sec.value]
    return out


# a time step whose NUMBER in the script's units system is tiny (a legitimate µs step of fast kinetics in a script counting
# hours; sub-ns steps in seconds): (time unit of the script, step in s)
SMALL_STEPS = [("h", Fraction(1, 10 ** 6)), ("min", Fraction(1, 2 ** 26)), ("s", Fraction(1, 2 ** 32)), ("h", Fraction(1, 2 ** 20)),
               ("min", Fraction(1, 10 ** 9))]


def fine_time_unit(rng, dt_nat):
    """a time unit in which the step is a number >= 1e-3"""
    return rng.choice([u for u in L.TIME if dt_nat / L.si_time(u) >= Fraction(1, 1000)])


def gen_script_desc(ctx, rng, k, max_cells=None, small=None):
    kind = "grid" if k % 2 == 0 else "graph"
    sd = {"t_sample": [0], "sampling_policy": "on_iteration", "rng_seed": 1}
    r = rng.random()
    if small is not None:
        us = (rng.choice(L.SPACE), small[0], rng.choice(L.QTY))
        sd["units"] = L.sysj(us)
    elif r < 0.5:
        us = L.rand_sys(rng)
        sd["units"] = L.sysj(us)
    elif r < 0.6:
        sd["units"] = "default"
        us = L.DEFAULT_SYS
    else:
        us = L.DEFAULT_SYS
    # the system inherits the script's units system wherever it declares none
    desc, phys, info = L.gen_system(rng, kind=kind, max_cells=max_cells or ctx.n(6, 12), chem_p=0.25, p_explicit=0.25, parent=us)
    sd["system"] = desc
    if rng.random() < 0.3:
        # an explicit bare state list, in the system's units system
        so = resolve(desc.get("units"), us)
        desc["state"] = [float(Fraction(v) / L.si_factor(so, L.D_QTY))
                         for v in [rng.choice([0, 1, 2.5, 40, 0.75, 100.25]) for _ in range(phys["ns"] * phys["n"])]]
    dt_nat = rng.choice([Fraction(1, 64), Fraction(1, 256), Fraction(1, 16)])
    sd["time_step"] = float(dt_nat / L.si_factor(us, L.D_TIME))
    if small is not None:
        dt_nat = small[1]
        if rng.random() < 0.5:
            sd["time_step"] = float(dt_nat / L.si_factor(us, L.D_TIME))           # the bare (tiny) number in the script's time unit
        else:
            tu = fine_time_unit(rng, dt_nat)
            sd["time_step"] = "%r %s" % (float(dt_nat / L.si_time(tu)), tu)        # explicit text, e.g. '1.0 µs'
    if rng.random() < 0.4:
        # sample times given as an explicit UnitArray in some other time unit; t_max defaults to the last one (2.5 dt)
        tu = rng.choice(L.TIME)
        sd["t_sample"] = {"value": [0.0, float(Fraction(5, 2) * dt_nat / L.si_time(tu))], "units": tu}
    else:
        sd["t_max"] = float(100 * dt_nat / L.si_factor(us, L.D_TIME))
    return sd, phys



# ------------------------------------------------------------------------------------------------ make_dxdtf(units_system=U)
def nonlinear(phys):
    """does the network have a reaction channel of order 0 or >= 2 with a non-zero constant (where the cell volume matters)?"""
    for r in phys["reacs"]:
        if (sum(r["sub"]) != 1 and any(k != 0 for k in r["kf"])) or (sum(r["prod"]) != 1 and any(k != 0 for k in r["kr"])):
            return True
    return False


def dxdtf_si(system, U):
    """rate of change through RDSystem.make_dxdtf(units_system=U), evaluated at the system's own state, in SI
    (molecule/s); returns (rates, state used in SI) or ("error", name)"""
    fq, fr = L.si_factor(U, L.D_QTY), L.si_factor(U, L.D_RATE)
    x_si = L.state_si(system.state)
    xU = [float(v / fq) for v in x_si]
    try:
        f = system.make_dxdtf(units_system=L.us_obj(U))
        out = [float(v) for v in f(0.0, list(xU))]
    except Exception as ex:  # noqa
        return ("error", type(ex).__name__), None
    if not all(abs(v) < 1e250 for v in out + xU):
        return ("overflow",), None
    return [Fraction(v) * fr for v in out], [Fraction(v) * fq for v in xU]


def check_dxdtf_pair(ctx, case):
    """the same physical size-1 system written twice (A, B = rescaled A): make_dxdtf requested in U1 on A and in U2 on B,
    and kinetics.compute_dstatedt in U3, must all give the rate law's value once expressed in SI"""
    import strengths.kinetics as kin
    phys = C1.phys_load(case["phys"])
    U1, U2, U3 = tuple(case["U1"]), tuple(case["U2"]), tuple(case["U3"])
    try:
        sa, sb = build_script(case["A"]).system, build_script(case["B"]).system
    except Exception as ex:  # noqa
        ctx.violation("units:member-raises", "the description raised %s: %s" % (type(ex).__name__, str(ex)[:160]), case, impl=type(ex).__name__)
        return
    results = []
    for tag, system, U in (("A", sa, U1), ("A", sa, U2), ("B", sb, U2), ("B", sb, U1)):
        out, x_si = dxdtf_si(system, U)
        if out and out[0] == "overflow":
            ctx.count("dxdtf_overflow_skipped")
            continue
        if out and out[0] == "error":
            ctx.violation("units:dxdtf-raises", "make_dxdtf(units_system=%s) raised %s on a system of size 1" % (list(U), out[1]), dict(case, member=tag, U=list(U)), impl=out[1])
            return
        chem = [int(v) for v in system.chemostats]
        orc = L.oracle_rate(phys, x_si)
        for s, x in enumerate(out):
            exp, mag = (Fraction(0), Fraction(0)) if chem[s] else orc[s]
            if abs(x - exp) > Fraction(TOL) * max(abs(x), abs(exp), mag):
                own = L.sys_of(system.units_system)
                ctx.violation("units:dxdtf-physical", "make_dxdtf(units_system=%s) on member %s (own units %s): entry %d is %s molecule/s, the rate law on the "
                              "described physical system gives %s" % (list(U), tag, list(own), s, common.fstr(x), common.fstr(exp)),
                              dict(case, member=tag, U=list(U), s=s), impl=common.fstr(x), expected=common.fstr(exp))
                return
        results.append((tag, U, out, orc))
    # the two requested systems / the two descriptions against each other, and against compute_dstatedt
    for (t1, u1, o1, orc), (t2, u2, o2, _) in zip(results, results[1:]):
        for s, (x, y) in enumerate(zip(o1, o2)):
            if abs(x - y) > Fraction(TOL) * max(abs(x), abs(y), orc[s][1]):
                ctx.violation("units:dxdtf-pair", "make_dxdtf entry %d: %s molecule/s (member %s, requested %s) vs %s (member %s, requested %s)"
                              % (s, common.fstr(x), t1, list(u1), common.fstr(y), t2, list(u2)), dict(case, s=s), impl=common.fstr(y), expected=common.fstr(x))
                return
    try:
        arr = kin.compute_dstatedt(sa, None, True, L.us_obj(U3))
        f3 = L.si_factor(L.sys_of(arr.units.sys), L.dim_of(arr.units.dim))
        ds = [Fraction(float(v)) * f3 for v in arr.value]
    except Exception as ex:  # noqa
        ds = None
    if ds is not None and results:
        t1, u1, o1, orc = results[0]
        for s, (x, y) in enumerate(zip(o1, ds)):
            if abs(x - y) > Fraction(TOL) * max(abs(x), abs(y), orc[s][1]):
                ctx.violation("units:dxdtf-vs-dstate", "entry %d: make_dxdtf(units_system=%s) gives %s molecule/s, compute_dstatedt(units_system=%s) gives %s"
                              % (s, list(u1), common.fstr(x), list(U3), common.fstr(y)), dict(case, s=s), impl=common.fstr(x), expected=common.fstr(y))
                return


# ------------------------------------------------------------------------------------------------ on_t_sample with tiny numbers
# (time unit of the script, e): the time step is the NUMBER 2^-e in that unit (dyadic: t = k*dt is accumulated exactly), a
# sub-nanosecond run stated in hours / minutes / seconds; requested times fall strictly between two steps
TSAMPLE_CASES = [("h", 44), ("h", 48), ("min", 42), ("s", 41)]
TSAMPLE_REQUESTS = [Fraction(0), Fraction(5, 2), Fraction(11, 2), Fraction(37, 4)]          # in steps
TSAMPLE_STEPS = [0, 3, 6, 10]                                                                # first step AT OR AFTER each request


def tsample_run(T, dt_num, kind):
    """A -> B with k*dt = 1/16 in a two-cell space, Euler engine, sampling_policy on_t_sample, everything stated as bare
    numbers in (µm, T, molecule); returns [(t in s, [molecules])]"""
    import strengths as st
    U = ("µm", T, "molecule")
    net = {"species": [{"label": "A", "density": 1000, "D": 0}, {"label": "B", "density": 0, "D": 0}],
           "reactions": [{"eq": "A -> B", "k+": 1.0 / (16.0 * dt_num), "k-": 0}]}
    space = {"type": "grid", "w": 2, "h": 1, "d": 1} if kind == "grid" else {"type": "graph", "nodes": [{}, {}], "edges": [{"nodes": [0, 1]}]}
    system = L.build_system({"units": L.sysj(U), "network": net, "space": space})
    script = st.RDScript(system, t_sample=[float(r) * dt_num for r in TSAMPLE_REQUESTS], time_step=dt_num, t_max=12.0 * dt_num,
                         sampling_policy="on_t_sample", rng_seed=1, units_system=L.us_obj(U))
    eng = common.load_engine("euler", "plain")
    eng.setup(script)
    k = 0
    while k < 40 and eng.iterate():
        k += 1
    traj = eng.get_output()
    eng.finalize()
    ts = [float(v) for v in traj.t.convert("s").value]
    ns, nc = traj.nspecies(), traj.ncells()
    data = __import__("numpy").asarray(traj.data.convert("molecule").value, dtype="float64").reshape((traj.nsamples(), ns * nc))
    return [(ts[j], [float(v) for v in data[j]]) for j in range(traj.nsamples())]


def tsample_eval(case):
    """(holds, what failed, detail): every requested time is recorded at the first step at or after it: recorded time k*dt and
    the Euler state after k steps (x_A = 1000*(15/16)^k), for the run stated in T and for the same run stated in ns"""
    T, e, kind = case["T"], case["e"], case["space"]
    dt_num = 2.0 ** (-e)
    dt_si = Fraction(1, 2 ** e) * L.si_time(T)
    runs = {T: tsample_run(T, dt_num, kind), "ns": tsample_run("ns", float(dt_si / L.si_time("ns")), kind)}
    detail = {"dt_s": float(dt_si), "requested_in_steps": [float(r) for r in TSAMPLE_REQUESTS], "expected_steps": TSAMPLE_STEPS,
              "recorded_t_s": {u: [t for t, _ in r] for u, r in runs.items()}, "recorded_A_cell0": {u: [x[0] for _, x in r] for u, r in runs.items()}}
    for u, r in runs.items():
        who = "run stated in (µm, %s, molecule), time_step = %r %s (%r s)" % (u, dt_num if u == T else float(dt_si / L.si_time("ns")), u, float(dt_si))
        if len(r) != len(TSAMPLE_STEPS):
            return False, "%s: %d samples recorded for %d requested times" % (who, len(r), len(TSAMPLE_STEPS)), detail
        for j, (t, x) in enumerate(r):
            kexp = TSAMPLE_STEPS[j]
            if not (close(t, kexp * dt_si, rel=1e-9) if kexp else t == 0):
                return False, ("%s: the requested time %s steps is recorded at t = %r s (%r steps); the first step at or after it is step %d, %r s"
                               % (who, float(TSAMPLE_REQUESTS[j]), t, t / float(dt_si), kexp, float(kexp * dt_si))), detail
            xa = Fraction(1000) * Fraction(15, 16) ** kexp
            exp = [xa, xa, 1000 - xa, 1000 - xa]
            if not all(close(v, q, Fraction(1000), rel=1e-9) for v, q in zip(x, exp)):
                return False, ("%s: the sample for the requested time %s steps holds %r molecules; the Euler state after %d steps is %r"
                               % (who, float(TSAMPLE_REQUESTS[j]), x, kexp, [float(q) for q in exp])), detail
    return True, None, detail


def tsample_stream(ctx):
    for T, e in TSAMPLE_CASES:
        for kind in ("grid", "graph"):
            case = {"kind": "tsample", "T": T, "e": e, "space": kind}
            try:
                ok, what, detail = tsample_eval(case)
            except Exception as ex:  # noqa
                ctx.violation("units:t-sample-raises", "on_t_sample run raised %s: %s" % (type(ex).__name__, str(ex)[:160]), case, impl=type(ex).__name__)
                continue
            ctx.case(("tsample", T, e, kind), nontrivial=True, sample={"op": "on_t_sample", "time_unit": T, "dt_number": 2.0 ** (-e), "space": kind,
                                                                        "recorded_t_s": detail["recorded_t_s"][T]})
            ctx.count("tsample_runs")
            if not ok:
                ctx.violation("units:t-sample-tiny-step", what, case, impl=detail["recorded_t_s"], expected=[float(k * Fraction(detail["dt_s"])) for k in TSAMPLE_STEPS])


def dxdtf_stream(ctx, n):
    """size-1 systems with at least one reaction channel of order 0 or >= 2 (where the cell volume enters), requested unit
    systems whose space unit differs from the system's own"""
    rng = ctx.rng
    for k in range(n):
        if C1.out_of_time(ctx):
            break
        for _ in range(30):
            sdA, phys = gen_script_desc(ctx, rng, k, max_cells=1)
            if phys["n"] == 1 and nonlinear(phys):
                break
        else:
            continue
        R = Rescaler(rng)
        sdB = R.script(sdA)
        own = resolve(sdA["system"].get("units"), resolve(sdA.get("units"), L.DEFAULT_SYS, script_level=True))
        U1 = L.rand_sys(rng)
        while U1[0] == own[0]:
            U1 = L.rand_sys(rng)
        U2 = L.rand_sys(rng)
        while U2[0] == U1[0]:
            U2 = L.rand_sys(rng)
        case = {"kind": "dxdtf_pair", "A": sdA, "B": sdB, "U1": list(U1), "U2": list(U2), "U3": list(L.rand_sys(rng)), "phys": C1.phys_dump(phys)}
        ctx.case(("dxdtf", C1.fingerprint(sdA), U1, U2), nontrivial=True,
                 sample={"op": "make_dxdtf", "own_units": list(own), "U1": list(U1), "U2": list(U2)})
        ctx.count("dxdtf_pairs")
        ctx.count("dxdtf_orders_" + ",".join(sorted({str(sum(r[side])) for r in phys["reacs"] for side in ("sub", "prod")})))
        check_dxdtf_pair(ctx, case)


def run(ctx):
    rng = ctx.rng
    C1.out_of_time(ctx)          # start the harness clock
    ctx.notes.append("marshalled engine, any engine units system: Props/C04Marshal.lean (marshal_euler_step_units_grid/_graph, "
                     "marshal_euler_step_vs_si_grid/_graph, marshal_euler_traj_closed_form_grid/_graph, "
                     "marshal_euler_traj_units_invariant_grid/_graph, marshal_euler_traj_engine_units_grid/_graph): the Euler engine on the "
                     "DECODED marshalled arrays set up in U (state xSI/sQty, step dt/sTime) follows the SI Euler trajectory / sQty for every "
                     "number of steps, free and chemostated entries; two engine units systems agree after x sQty")
    tsample_stream(ctx)
    dxdtf_stream(ctx, ctx.n(60, 1500))
    npairs = ctx.n(70, 1500)
    NSTEPS = 4
    ops, meta = [], []
    for k in range(npairs):
        if C1.out_of_time(ctx):
            ctx.notes.append("stopped after %d pairs (time budget)" % k)
            break
        small = SMALL_STEPS[(k // 6) % len(SMALL_STEPS)] if k % 6 == 2 else None
        sdA, phys = gen_script_desc(ctx, rng, k, small=small)
        R = Rescaler(rng, force_script_time=fine_time_unit(rng, small[1]) if small else None)
        sdB = R.script(sdA)
        if small:
            ctx.count("small_step_pairs")
        U1, U2 = L.rand_sys(rng), L.rand_sys(rng)
        refuse_on = rng.choice(["A", "B", None])
        case = {"kind": "pair", "A": sdA, "B": sdB, "U1": list(U1), "U2": list(U2), "nsteps": NSTEPS, "phys": C1.phys_dump(phys),
                "refused_state_assignment_on": refuse_on}
        ctx.count("refused_state_assignment_on_%s" % refuse_on)
        fp = (C1.fingerprint(sdA), C1.fingerprint(sdB))
        if k % 2 == 1 or k % 6 == 0:
            case["set_state"] = draw_writes(fp, phys)       # both members get the same physical amounts written
            ctx.count("pairs_with_set_state")
        for lv in set(R.changed):
            ctx.count("level_changed_" + lv)
        ctx.count("explicit_replacements", R.explicit)
        ctx.count("pairs")
        try:
            a = member(sdA, U1, NSTEPS, refuse=(refuse_on == "A"), writes=case.get("set_state"))
        except Exception as ex:  # noqa
            ctx.violation("units:member-raises", "the description raised %s: %s" % (type(ex).__name__, str(ex)[:160]), case, impl=type(ex).__name__)
            continue
        try:
            b = member(sdB, U2, NSTEPS, refuse=(refuse_on == "B"), writes=case.get("set_state"))
        except Exception as ex:  # noqa
            ctx.violation("units:rescaled-raises", "the re-scaled description raised %s: %s (levels changed: %s)" % (type(ex).__name__, str(ex)[:160], sorted(set(R.changed))),
                          case, impl=type(ex).__name__)
            continue
        ctx.case(fp, nontrivial=bool(R.changed) or R.explicit > 0,
                 sample={"op": "pair", "levels_changed": sorted(set(R.changed)), "explicit": R.explicit, "state_A": [float(v) for v in a["state"]][:4],
                         "state_B": [float(v) for v in b["state"]][:4]})
        compare_pair(ctx, a, b, phys, case, sorted(set(R.changed)))
        # correspondence: model build of both members
        for tag, sd, mem in (("A", sdA, a), ("B", sdB, b)):
            parent = resolve(sd.get("units"), L.DEFAULT_SYS, script_level=True)
            sj = L.sys_json(mem["system"])
            edges = [sj["space"]["edge"]] if sj["space"]["kind"] == "grid" else [nd["edge"] for nd in sj["space"]["nodes"]]
            ops.append({"op": "build_system", "parent": L.sysj(parent), "edges_si": edges, "desc": descj(sd["system"])})
            meta.append((dict(case, member=tag), sj, mem["state_built"]))
    # malformed stream: both sides must raise
    for k in range(ctx.n(12, 200)):
        sd, _ = gen_script_desc(ctx, rng, k)
        what = break_desc(rng, sd["system"])
        if what is None:
            continue
        case = {"kind": "malformed", "A": sd, "what": what}
        try:
            build_script(sd)
            raised = False
        except Exception:  # noqa
            raised = True
        ctx.case(("bad", C1.fingerprint(sd)), nontrivial=True)
        ctx.count("malformed_" + what)
        if not raised:
            ctx.violation("units:accepts-" + what, "a description with %s was accepted" % what, case, impl="accepted", expected="exception")
        parent = resolve(sd.get("units"), L.DEFAULT_SYS, script_level=True)
        ops.append({"op": "build_system", "parent": L.sysj(parent), "edges_si": [], "desc": descj(sd["system"])})
        meta.append((case, None, raised))
    res = ctx.model.run(ops)
    for (case, sj, extra), m in zip(meta, res):
        if m is None:
            continue
        if sj is None:
            if ("error" in m) != extra:
                ctx.disagree("build_system", case, "raised" if extra else "accepted", m if "error" in m else "ok")
            continue
        ctx.count("build_system")
        if "error" in m:
            ctx.disagree("build_system", case, "ok", m)
            continue
        mo = m["ok"]
        if not same_canon(canon_sysj(sj), canon_sysj(mo["sys"])) or not same_canon(list(extra), [rparse(v) for v in mo["state"]]):
            ctx.disagree("build_system", case, {"sys": sj, "state": [rstr(v) for v in extra]}, mo)


def break_desc(rng, desc):
    """make one units-related field of the description invalid; returns what was done"""
    net = desc["network"]
    choice = rng.choice(["dim", "dim", "units-string", "units-symbol", "units-key"])
    if choice == "dim":
        sp = rng.choice(net["species"])
        fld, good = rng.choice([("D", L.D_DIFF), ("density", L.D_DENS)])
        bad = rng.choice([d for d in (L.D_DIFF, L.D_DENS, L.D_VOL, L.D_TIME, (2, -1, 1), (-3, 0, 0)) if d != good])
        sp[fld] = "1.5 " + L.units_text(L.rand_sys(rng), bad)
        return "wrong-dimension-explicit-value"
    target = rng.choice([desc, net, desc["space"], rng.choice(net["species"])])
    if choice == "units-string":
        target["units"] = rng.choice(["SI", "Default", "inherited", ""])
        return "invalid-units-string"
    if choice == "units-symbol":
        target["units"] = {"space": rng.choice(["Mm", "inch", "s"]), "time": "s"}
        return "unknown-unit-symbol"
    target["units"] = {"space": "m", "tme": "s"}
    return "unknown-units-key"


def compare_pair(ctx, a, b, phys, case, changed):
    lv = ",".join(changed) or "none"
    lv += "; units keys as handed to the package — A: %s — B: %s" % (L.spelled_levels(case["A"]), L.spelled_levels(case["B"]))
    if case.get("refused_state_assignment_on"):
        lv += "; a wrong-dimension state assignment was attempted (and must have been refused without effect) on member " + case["refused_state_assignment_on"]
    for tag, m in (("A", a), ("B", b)):
        if m.get("accepted"):
            ctx.violation("state-setter:accepts-wrong-dimension", "member %s: %s" % (tag, m["accepted"]), case, impl="accepted", expected="ValueError")
            return
    # ---- set_state: the written amounts are physical amounts (a bare number is in the SYSTEM's units), nothing else moves
    for tag, m in (("A", a), ("B", b)):
        for w, g in zip(case.get("set_state") or [], m.get("set_state") or []):
            amount = Fraction(w["amount_molecules"])
            where = "member %s (system units %s, network units %s): %s" % (tag, list(m["own_units"]), list(m["net_units"]), g["call"])
            if tuple(g["get_state_dim"]) != L.D_QTY or not close(float(g["get_state_si"]), amount, rel=1e-9):
                ctx.violation("units:set-state", "%s, then get_state gives %r molecules, the written amount is %r molecules"
                              % (where, float(g["get_state_si"]), float(amount)), dict(case, member=tag), impl=float(g["get_state_si"]), expected=float(amount))
                return
        if m.get("set_state"):
            written = {w["e"]: Fraction(w["amount_molecules"]) for w in case["set_state"]}
            for e, (x0, x1) in enumerate(zip(m["state_built"], m["state"])):
                exp = written.get(e, x0)
                if not (close(float(x1), exp, rel=1e-9) if exp != 0 else x1 == 0):
                    ctx.violation("units:set-state", "member %s (system units %s, network units %s) after %s: entry %d of system.state is %r molecules, "
                                  "expected %r (%s)" % (tag, list(m["own_units"]), list(m["net_units"]), "; ".join(g["call"] for g in m["set_state"]), e, float(x1),
                                                        float(exp), "the written amount" if e in written else "an entry that was not written"),
                                  dict(case, member=tag, e=e), impl=float(x1), expected=float(exp))
                    return
    # ---- initial state and chemostats
    if len(a["state"]) != len(b["state"]) or not all(close(float(x), y, rel=1e-12) if y != 0 else x == 0 for x, y in zip(a["state"], b["state"])):
        bad = next((e for e, (x, y) in enumerate(zip(a["state"], b["state"])) if not (close(float(x), y, rel=1e-12) if y != 0 else x == 0)), None)
        ctx.violation("units:state", "the initial state differs between the two descriptions (entry %s: %r vs %r molecules; levels changed: %s)"
                      % (bad, float(a["state"][bad]) if bad is not None else None, float(b["state"][bad]) if bad is not None else None, lv),
                      case, impl=[float(v) for v in b["state"]], expected=[float(v) for v in a["state"]])
        return
    if a["chem"] != b["chem"]:
        ctx.violation("units:chem", "the chemostat map differs between the two descriptions", case, impl=b["chem"], expected=a["chem"])
        return
    orc = L.oracle_rate(phys, a["state"])
    # ---- both against the physical system the generator wrote down (catches errors common to both members)
    if "state" not in case["A"]["system"]:
        xs = list(L.default_state_phys(phys))
        for w in case.get("set_state") or []:
            xs[w["e"]] = Fraction(w["amount_molecules"])
        for e, (x, y) in enumerate(zip(a["state"], xs)):
            if not (close(float(x), y, rel=1e-9) if y != 0 else x == 0):
                ctx.violation("units:state-physical", "default state entry %d is %r molecules, density x volume of the description gives %r" % (e, float(x), float(y)),
                              dict(case, e=e), impl=float(x), expected=float(y))
                return
    # ---- rate of change (each in its own requested output system)
    da, db = a["dstate"], b["dstate"]
    if not (da and da[0] == "error"):
        for e, x in enumerate(da):
            exp, mag = (Fraction(0), Fraction(0)) if a["chem"][e] else orc[e]
            if abs(x - exp) > Fraction(TOL) * max(abs(x), abs(exp), mag):
                ctx.violation("units:dstate-physical", "rate of change of entry %d is %r molecule/s, the rate law on the described physical system gives %r" % (e, float(x), float(exp)),
                              dict(case, e=e), impl=float(x), expected=float(exp))
                return
    if (da and da[0] == "error") != (db and db[0] == "error"):
        ctx.violation("units:dstate-raises", "compute_dstatedt raises for one description only (%s / %s)" % (da[:2], db[:2]), case)
    elif not (da and da[0] == "error"):
        for e, (x, y) in enumerate(zip(da, db)):
            if abs(x - y) > Fraction(TOL) * max(abs(x), abs(y), orc[e][1]):
                ctx.violation("units:dstate", "the rate of change of entry %d differs: %r vs %r molecule/s (levels changed: %s)" % (e, float(x), float(y), lv),
                              dict(case, e=e), impl=float(y), expected=float(x))
                break
        for tag, m, U in (("A", a, case["U1"]), ("B", b, case["U2"])):
            if tuple(m["dstate_units"][0]) != tuple(U) or tuple(m["dstate_units"][1]) != L.D_RATE:
                ctx.violation("units:dstate-units", "compute_dstatedt(units_system=%s) returned units %s" % (U, m["dstate_units"]), case)
    # ---- Euler trajectory, fixed number of steps
    for tag, m in (("A", a), ("B", b)):
        du, tu, su = m["traj_units"]
        if du != su or tu != su:
            ctx.violation("units:output-system", "the trajectory of member %s is reported in %s / %s, the script's units system is %s" % (tag, du, tu, su), case)
            return
    # ---- the first Euler step of each member against the physical system: x1 = x0 + dt*rate(x0); a non-finite value is a finding
    import math
    for tag, m, sd in (("A", a, case["A"]), ("B", b, case["B"])):
        if len(m["traj"]) < 2:
            continue
        x0s = a["state"] if tag == "A" else b["state"]
        for e, v in enumerate(m["traj"][1]):
            exp = x0s[e] if m["chem"][e] else x0s[e] + m["dt_si"] * orc[e][0]
            mag = abs(x0s[e]) + m["dt_si"] * orc[e][1]
            if abs(exp) > Fraction(10) ** 150:
                continue
            if not math.isfinite(v):
                ctx.violation("units:trajectory-non-finite", "member %s (script units %s): Euler sample 1 entry %d is %r; x0 + dt*rate(x0) on the described physical system "
                              "is %r molecules" % (tag, sd.get("units"), e, v, float(exp)), dict(case, member=tag, sample=1, e=e), impl=repr(v), expected=float(exp))
                return
            if not close(v, exp, mag, rel=1e-8):
                ctx.violation("units:trajectory-physical", "member %s (script units %s): Euler sample 1 entry %d is %r molecules; x0 + dt*rate(x0) on the described "
                              "physical system is %r" % (tag, sd.get("units"), e, v, float(exp)), dict(case, member=tag, sample=1, e=e), impl=v, expected=float(exp))
                return
    # the run completes when t > t_max (physical): number of recorded samples of `nsteps` iterations
    for tag, m, sd in (("A", a, case["A"]), ("B", b, case["B"])):
        ts = sd.get("t_sample")
        if isinstance(ts, dict):
            tmax_phys = Fraction(ts["value"][-1]) * L.si_time(ts["units"])
            dt_phys = m["dt_si"]
            if not close(float(m["tmax_si"]), tmax_phys, rel=1e-9):
                ctx.violation("units:t-sample-unitarray", "t_sample given as %r %s: the script's t_max is %r s, the last sample time is %r s"
                              % (ts["value"], ts["units"], float(m["tmax_si"]), float(tmax_phys)), dict(case, member=tag), impl=float(m["tmax_si"]), expected=float(tmax_phys))
                return
            ratio = tmax_phys / dt_phys
            if abs(ratio - round(ratio)) > Fraction(1, 100):
                exp_n = 1 + min(case["nsteps"], int(ratio) + 1)
                if len(m["traj"]) != exp_n:
                    ctx.violation("units:completion", "member %s recorded %d samples in %d iterations; with dt = %r s and t_max = %r s it must be %d"
                                  % (tag, len(m["traj"]), case["nsteps"], float(dt_phys), float(tmax_phys), exp_n), dict(case, member=tag), impl=len(m["traj"]), expected=exp_n)
                    return
    # sample k of a run sampled on every iteration is stamped k*dt (physical), whatever the size of the NUMBER dt in the script's units
    for tag, m, sd in (("A", a, case["A"]), ("B", b, case["B"])):
        for k, t in enumerate(m["t"]):
            if not close(t, k * m["dt_si"], rel=1e-9):
                ctx.violation("units:traj-time-physical", "member %s (script units %s, time_step = %r, i.e. %r s): sample %d is stamped %r s, %d steps of the "
                              "requested size are %r s" % (tag, sd.get("units"), sd["time_step"], float(m["dt_si"]), k, t, k, float(k * m["dt_si"])),
                              dict(case, member=tag, sample=k), impl=t, expected=float(k * m["dt_si"]))
                return
    if len(a["traj"]) != len(b["traj"]):
        ctx.violation("units:traj-length", "different number of samples: %d vs %d" % (len(a["traj"]), len(b["traj"])), case)
        return
    scale = max([abs(v) for row in a["traj"] for v in row] + [1e-300])
    for k, (ra, rb) in enumerate(zip(a["traj"], b["traj"])):
        if not all(abs(v) < 1e150 for v in ra + rb):
            ctx.count("euler_blowup_skipped")     # explicit Euler with a coarse step diverged (inf/nan): nothing to compare
            return
        scale0 = max([abs(v) for v in a["traj"][0]] + [1.0])
        if max(abs(v) for v in ra + rb) > 1e6 * scale0:
            # explicit Euler with a coarse step is diverging (amounts a million times the initial ones): each step subtracts huge
            # terms, rounding differences between the two statements of the same system are amplified without bound — the
            # first step has been judged against the physical system above, later samples are not compared
            ctx.count("euler_diverging_skipped")
            return
        if not close(a["t"][k], Fraction(b["t"][k]), Fraction(max(a["t"])), rel=TOL):
            ctx.violation("units:traj-time", "sample %d is stamped %r s vs %r s (levels changed: %s)" % (k, a["t"][k], b["t"][k], lv), dict(case, sample=k),
                          impl=b["t"][k], expected=a["t"][k])
            return
        for e, (x, y) in enumerate(zip(ra, rb)):
            if abs(x - y) > 1e-8 * max(abs(x), abs(y)) + 1e-9 * scale:
                ctx.violation("units:trajectory", "Euler sample %d entry %d: %r vs %r molecules (levels changed: %s)" % (k, e, x, y, lv), dict(case, sample=k, e=e),
                              impl=y, expected=x)
                return


def replay(ctx, rec):
    case = rec.get("case", rec)
    if case["kind"] == "tsample":
        ok, what, detail = tsample_eval(case)
        detail["failure"] = what
        return ok, detail
    if case["kind"] == "malformed":
        try:
            build_script(case["A"])
            return False, {"impl": "accepted"}
        except Exception as ex:  # noqa
            return True, {"impl": repr(ex)}
    class Rec:
        def __init__(self):
            self.v = []
            self.notes = []
        def violation(self, key, what, case, impl=None, expected=None, replay_cmd=None):
            self.v.append({"key": key, "what": what})
        def case(self, *a, **k):
            pass
        def count(self, *a, **k):
            pass
    rec_ = Rec()
    if case["kind"] == "dxdtf_pair":
        check_dxdtf_pair(rec_, case)
        return not rec_.v, {"failures": rec_.v}
    try:
        a = member(case["A"], tuple(case["U1"]), case["nsteps"], refuse=(case.get("refused_state_assignment_on") == "A"), writes=case.get("set_state"))
        b = member(case["B"], tuple(case["U2"]), case["nsteps"], refuse=(case.get("refused_state_assignment_on") == "B"), writes=case.get("set_state"))
    except Exception as ex:  # noqa
        return False, {"impl": "raised " + repr(ex)}
    compare_pair(rec_, a, b, C1.phys_load(case["phys"]), case, [])
    da, db = a["dstate"], b["dstate"]
    return not rec_.v, {"failures": rec_.v, "state_A": [float(v) for v in a["state"]], "state_B": [float(v) for v in b["state"]],
                        "dstate_A": None if da and da[0] == "error" else [float(v) for v in da], "dstate_B": None if db and db[0] == "error" else [float(v) for v in db],
                        "traj_A": a["traj"], "traj_B": b["traj"], "t_A": a["t"], "t_B": b["t"]}
