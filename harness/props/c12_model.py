"""C12 correspondence: model reader/writer (Lean, op `from_dict`) vs the real readers/writers."""


def correspond(ctx, aliases):
    ctx.notes.append("model correspondence not built yet")


def replay(ctx, case, out):
    return True, out
