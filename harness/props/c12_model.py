"""C12 correspondence: the Lean dictionary model (op `from_dict`: generic reader + writer, `process_keys`,
`path_with_base`) against the real readers / writers on the same dictionaries.

Inputs: the dictionary forms of generated objects (every nesting level separately, with a random parent units
system) and edited variants of them: aliases, omitted optional keys, numbers instead of quantity text, units
given as "inherit" / "default" / partial dictionary / omitted, comma-separated environment keys, children and
arrays moved to files (relative / absolute paths), and a malformed stream (unknown key, two synonyms, wrong
dimension, unknown unit, bad enumeration value, wrong sizes)."""
import copy, json, os, shutil, tempfile
from fractions import Fraction
from common import rstr, frac

QTY_KEYS = {"species": ["D", "density"], "reaction": ["k+", "k-"], "grid": ["cell_volume"], "node": ["volume"],
            "edge": ["surface", "distance"], "script": ["time_step", "t_max", "sampling_interval"]}
CHILD_KEYS = {"network": {"species": ("species", True), "reactions": ("reaction", True)},
              "graph": {"nodes": ("node", True), "edges": ("edge", True)},
              "system": {"network": ("network", False), "space": ("space", False)},
              "script": {"system": ("system", False)}}


class Q:
    def __init__(self, v, u):
        self.v, self.u = v, u


class EQ:
    def __init__(self, sub, prod):
        self.sub, self.prod = sub, prod


def parse_eq(s):
    """own reading of a stoichiometric equation (None when outside the grammar)"""
    sides = s.split("->")
    if len(sides) != 2:
        return None
    out = []
    for side in sides:
        d = []
        toks = side.split("+")
        if not (len(toks) == 1 and toks[0].strip() == ""):
            for t in toks:
                w = t.split()
                if len(w) == 1:
                    c, l = 1, w[0]
                elif len(w) == 2:
                    try:
                        c = int(w[0])
                    except ValueError:
                        return None
                    l = w[1]
                else:
                    return None
                for e in d:
                    if e[0] == l:
                        e[1] += c
                        break
                else:
                    d.append([l, c])
        out.append(d)
    return EQ(out[0], out[1])


def parse_q(s):
    t = s.split()
    if not t:
        return None
    try:
        v = float(t[0])
    except ValueError:
        return None
    if v != v or v in (float("inf"), float("-inf")):
        return None
    return Q(v, " ".join(t[1:]))


def canon(aliases, dk, k):
    for g in aliases.get(dk, []):
        if k in g:
            return g[0]
    return k


def space_kind(d):
    return "graph" if isinstance(d, dict) and d.get("type", "grid") == "graph" else "grid"


def tok(aliases, dk, d):
    """dictionary of kind dk -> same structure with quantity / equation strings replaced by tokens"""
    if not isinstance(d, dict):
        return d
    if dk == "space":
        dk = space_kind(d)
    out = {}
    for k, v in d.items():
        c = canon(aliases, dk, k)
        if c in QTY_KEYS.get(dk, []):
            if isinstance(v, str):
                q = parse_q(v)
                out[k] = q if (q is not None and v != "default") else v
            elif isinstance(v, dict) and not ("value" in v or "units" in v):
                out[k] = {kk: ((parse_q(vv) or vv) if isinstance(vv, str) else vv) for kk, vv in v.items()}
            else:
                out[k] = v
        elif dk == "reaction" and c == "stoichiometry" and isinstance(v, str):
            out[k] = parse_eq(v) or v
        elif c in CHILD_KEYS.get(dk, {}):
            ck, many = CHILD_KEYS[dk][c]
            if many and isinstance(v, list):
                out[k] = [tok(aliases, ck, x) for x in v]
            elif not many and isinstance(v, dict):
                out[k] = tok(aliases, ck, v)
            else:
                out[k] = v
        else:
            out[k] = v
    return out


def enc(x):
    """tokenised structure -> wire form (ordered objects)"""
    if isinstance(x, Q):
        return {"$q": rstr(x.v), "$u": x.u}
    if isinstance(x, EQ):
        return {"$eq": [x.sub, x.prod]}
    if isinstance(x, dict):
        return {"$obj": [[k, enc(v)] for k, v in x.items()]}
    if isinstance(x, (list, tuple)):
        return [enc(v) for v in x]
    if isinstance(x, bool) or x is None or isinstance(x, str):
        return x
    if isinstance(x, (int, float)):
        return {"$n": rstr(x)}
    try:
        import numpy as np
        if isinstance(x, np.ndarray):
            return [enc(v) for v in x.tolist()]
        if isinstance(x, (np.integer, np.floating)):
            return {"$n": rstr(x)}
    except ImportError:
        pass
    raise TypeError(repr(x))


def enc_out(x):
    """tokenised structure -> the form the driver prints (plain objects)"""
    if isinstance(x, Q):
        return {"$q": rstr(x.v), "$u": x.u}
    if isinstance(x, EQ):
        return {"$eq": [x.sub, x.prod]}
    if isinstance(x, dict):
        return {k: enc_out(v) for k, v in x.items()}
    if isinstance(x, (list, tuple)):
        return [enc_out(v) for v in x]
    if isinstance(x, bool) or x is None or isinstance(x, str):
        return x
    return {"$n": rstr(x)}


# ---------------------------------------------------------------- views of the real objects in the driver's format
def sys_t(us):
    return [us.space, us.time, us.quantity]


def rv_qty(x):
    return {"v": rstr(x.value), "sys": sys_t(x.units.sys), "dim": [x.units.dim.space, x.units.dim.time, x.units.dim.quantity]}


def rv_arr(x):
    return {"vs": [rstr(v) for v in x.value.tolist()], "sys": sys_t(x.units.sys),
            "dim": [x.units.dim.space, x.units.dim.time, x.units.dim.quantity]}


def rv_env(x):
    if isinstance(x, dict):
        return {"env": [[k, rv_qty(v)] for k, v in x.items()]}
    return rv_qty(x)


def rv_species(s):
    return {"units_system": sys_t(s.units_system), "label": s.label, "D": rv_env(s.D), "density": rv_env(s.density),
            "chstt": {"raw": enc_out(s.chstt)} if isinstance(s.chstt, dict) else bool(s.chstt)}


def rv_reaction(r):
    return {"units_system": sys_t(r.units_system), "label": r.label,
            "stoichiometry": {"sub": [[k, int(v)] for k, v in r.substrates.items()], "prod": [[k, int(v)] for k, v in r.products.items()]},
            "kf": rv_env(r.kf), "kr": rv_env(r.kr)}


def rv_network(n):
    return {"units_system": sys_t(n.units_system), "species": [rv_species(s) for s in n.species],
            "reactions": [rv_reaction(r) for r in n.reactions], "environments": list(n.environments)}


def rv_space(sp):
    if type(sp).__name__ == "RDGridSpace":
        return {"type": "grid", "units_system": sys_t(sp.units_system), "w": sp.w, "h": sp.h, "d": sp.d,
                "cell_env": [int(v) for v in sp.cell_env], "cell_vol": rv_qty(sp.cell_vol),
                "boundary_conditions": {"raw": dict(sp.get_boundary_conditions())}}
    return {"type": "graph", "units_system": sys_t(sp.units_system),
            "nodes": [{"units_system": sys_t(n.units_system), "volume": rv_qty(n.volume), "environment": int(n.environment)} for n in sp.nodes],
            "edges": [{"units_system": sys_t(e.units_system), "i": [e.i, e.j], "surface": rv_qty(e.surface), "distance": rv_qty(e.distance)}
                      for e in sp.edges]}


def rv_system(s):
    return {"units_system": sys_t(s.units_system), "network": rv_network(s.network), "space": rv_space(s.space),
            "state": rv_arr(s.state), "chemostats": [int(v) for v in s.chemostats]}


def rv_script(s):
    tm = s._t_max
    return {"units_system": sys_t(s.units_system), "system": rv_system(s.system), "t_sample": rv_arr(s.t_sample),
            "time_step": rv_qty(s.time_step), "t_max": "default" if isinstance(tm, str) else rv_qty(tm),
            "sampling_policy": s.sampling_policy, "sampling_interval": rv_qty(s.sampling_interval), "rng_seed": int(s.rng_seed),
            "init_state_processing": s.init_state_processing}


def real_call(kind, d, parent, base):
    import strengths.rdnetwork as rn, strengths.rdspace as rs, strengths.rdsystem as rsy, strengths.rdscript as rsc, strengths.units as u
    P = u.UnitsSystem(*parent)
    d = copy.deepcopy(d)
    if kind == "species":
        o = rn.species_from_dict(d, P)
        return rv_species(o), rn.species_to_dict(o), "species"
    if kind == "reaction":
        o = rn.reaction_from_dict(d, P)
        return rv_reaction(o), rn.reaction_to_dict(o), "reaction"
    if kind == "network":
        o = rn.rdnetwork_from_dict(d, P, base_path=base)
        return rv_network(o), rn.rdnetwork_to_dict(o), "network"
    if kind == "space":
        o = rs.rdspace_from_dict(d, P, base_path=base)
        return rv_space(o), rs.rdspace_to_dict(o), "space"
    if kind == "system":
        o = rsy.rdsystem_from_dict(d, P, base_path=base)
        return rv_system(o), rsy.rdsystem_to_dict(o), "system"
    if kind == "script":
        o = rsc.rdscript_from_dict(d, base_path=base)
        return rv_script(o), rsc.rdscript_to_dict(o), "script"
    if kind == "units":
        o = u.unitssystem_from_dict(d)
        return sys_t(o), u.unitssystem_to_dict(o), "unitsSystem"
    raise ValueError(kind)


def strip_defaults(real, model):
    """entries the model does not compute (generated default state / chemostat map: C13; random seed)"""
    if isinstance(real, dict) and isinstance(model, dict):
        for k in list(model.keys()):
            if k in ("state", "chemostats", "rng_seed") and model[k] is None and k in real:
                real = dict(real)
                model = dict(model)
                del real[k]
                del model[k]
        out_r, out_m = dict(real), dict(model)
        for k in real:
            if k in model:
                out_r[k], out_m[k] = strip_defaults(real[k], model[k])
        return out_r, out_m
    if isinstance(real, list) and isinstance(model, list) and len(real) == len(model):
        pairs = [strip_defaults(a, b) for a, b in zip(real, model)]
        return [p[0] for p in pairs], [p[1] for p in pairs]
    return real, model


import re
_RAT = re.compile(r"^-?\d+(/\d+)?$")


def _num(s):
    """rational wire string -> nearest double (the model keeps decimal defaults such as 1e-3 exactly, the code as doubles)"""
    return repr(float(Fraction(s))) if isinstance(s, str) and _RAT.match(s) else s


def norm(x):
    def walk(o):
        if isinstance(o, dict):
            return {k: (_num(v) if k in ("v", "$n", "$q") else [_num(e) for e in v] if (k == "vs" and isinstance(v, list)) else walk(v))
                    for k, v in o.items()}
        if isinstance(o, list):
            return [walk(v) for v in o]
        return o
    return walk(json.loads(json.dumps(x, sort_keys=True)))


# ---------------------------------------------------------------- input generation
def all_subdicts(kind, d):
    """(reader kind, dictionary) of the object itself and of every nested dictionary"""
    out = []

    def net(nd):
        out.append(("network", nd))
        for s in nd.get("species", []):
            out.append(("species", s))
            if isinstance(s.get("units"), dict):
                out.append(("units", s["units"]))
        for r in nd.get("reactions", []):
            out.append(("reaction", r))

    def system(sd):
        out.append(("system", sd))
        if isinstance(sd.get("network"), dict):
            net(sd["network"])
        if isinstance(sd.get("space"), dict):
            out.append(("space", sd["space"]))
    if kind == "network":
        net(d)
    elif kind in ("grid", "graph"):
        out.append(("space", d))
    elif kind == "system":
        system(d)
    elif kind == "script":
        out.append(("script", d))
        system(d["system"])
    return out


READER_KIND = {"species": "species", "reaction": "reaction", "network": "network", "system": "system", "script": "script",
               "units": "unitsSystem"}


def dict_kind(kind, d):
    return space_kind(d) if kind == "space" else READER_KIND[kind]


def edit(rng, aliases, kind, d, tmp, files):
    """one random edit of a dictionary (in place where possible); returns a tag describing it"""
    from props.c12 import SPACE, TIME, QTY
    dk = dict_kind(kind, d)
    groups = aliases.get(dk, [])
    r = rng.random()
    keys = list(d.keys())
    if r < 0.22 and keys:                                       # alias
        k = rng.choice(keys)
        g = next((g for g in groups if g and g[0] == k and len(g) > 1), None)
        if g:
            a = rng.choice(g[1:])
            items = [(a if kk == k else kk, vv) for kk, vv in d.items()]
            d.clear()
            d.update(items)
            return "alias"
    if r < 0.40 and keys:                                       # drop a key (optional or mandatory)
        k = rng.choice(keys)
        del d[k]
        return "drop"
    if r < 0.55:                                                # units spelling
        if dk == "unitsSystem":
            return "none"
        c = rng.random()
        uk = next((k for k in d if canon(aliases, dk, k) == "units"), "units")
        if c < 0.25:
            d[uk] = "inherit"
        elif c < 0.5:
            d[uk] = "default"
        elif c < 0.8:
            full = {"space": rng.choice(SPACE), "time": rng.choice(TIME), "quantity": rng.choice(QTY)}
            d[uk] = {k: v for k, v in full.items() if rng.random() < 0.7}
        else:
            d[uk] = rng.choice(["metric", 3, None, {"space": "parsec"}, {"length": "m"}])
        return "units"
    if r < 0.70:                                                # quantity text -> number / other unit text
        qk = [k for k in d if canon(aliases, dk, k) in QTY_KEYS.get(dk, [])]
        if qk:
            k = rng.choice(qk)
            v = d[k]
            c = rng.random()
            if isinstance(v, str) and v != "default":
                q = parse_q(v)
                if q is not None:
                    if c < 0.5:
                        d[k] = q.v
                    elif c < 0.65:
                        d[k] = int(q.v) if q.v == int(q.v) and abs(q.v) < 1e9 else q.v
                    elif c < 0.8:
                        d[k] = "%r m2" % q.v            # wrong dimension (mostly)
                    elif c < 0.9:
                        d[k] = "%r furlong" % q.v       # unknown unit
                    else:
                        d[k] = {"a, b": v, "default": q.v}
                    return "qty"
            elif isinstance(v, dict) and v:
                kk = rng.choice(list(v.keys()))
                vv = v.pop(kk)
                v[kk + " , zz"] = vv
                return "envkey"
    if dk == "reaction" and r < 0.78:                           # explicit zero coefficient in the equation text
        k = next((k for k in d if canon(aliases, dk, k) == "stoichiometry"), None)
        if k is not None and isinstance(d[k], str) and "->" in d[k]:
            lhs, rhs = d[k].split("->", 1)
            c = rng.random()
            if c < 0.4:
                lhs = "0 A" + (" + " + lhs if lhs.strip() else " ")
            elif c < 0.7:
                rhs = (rhs.rstrip() + " + 0 A ") if rhs.strip() else " 0 A "
            else:
                lhs, rhs = "0 A" + (" + " + lhs if lhs.strip() else " "), " 0 A" + (" + " + rhs if rhs.strip() else " ")
            d[k] = lhs + "->" + rhs
            return "zero-coefficient"
    if r < 0.80:                                                # malformed
        c = rng.random()
        if c < 0.3:
            d["bogus_key"] = 1
            return "unknown-key"
        if c < 0.55 and keys:
            k = rng.choice(keys)
            g = next((g for g in groups if k in g and len(g) > 1), None)
            if g:
                other = rng.choice([a for a in g if a != k])
                d[other] = copy.deepcopy(d[k])
                return "two-synonyms"
        if dk == "grid":
            d[rng.choice(["w", "h", "d"])] = rng.choice([0, -1, 2, 2.7, True])
            return "grid-size"
        if dk == "script":
            d[rng.choice(["sampling_policy", "init_state_processing"])] = rng.choice(["sometimes", "floor", 3, None, "none", "on_interval"])
            return "enum"
        if dk == "species":
            d["chstt"] = rng.choice([1, 0, 2.5, "yes", None, {"a": 1}])
            return "chstt"
        if dk == "network":
            d["environments"] = rng.choice([[], ["default"], ["a", "a"], "a", ["x", "y"]])
            return "envs"
    if r < 1.0 and tmp is not None:                             # move something to a file
        import numpy as np
        cands = []
        if dk == "system":
            for k in ("network", "space"):
                if isinstance(d.get(k), dict):
                    cands.append(k)
            if isinstance(d.get("chemostats"), list):
                cands.append("chemostats")
            if isinstance(d.get("state"), dict) and isinstance(d["state"].get("value"), list):
                cands.append("state")
        if dk == "script" and isinstance(d.get("system"), dict):
            cands.append("system")
        if dk == "grid" and isinstance(d.get("cell_env"), list):
            cands.append("cell_env")
        if cands:
            k = rng.choice(cands)
            n = len(files)
            absolute = rng.random() < 0.4
            sub = "" if rng.random() < 0.5 else "sub"
            os.makedirs(os.path.join(tmp, sub), exist_ok=True)
            if k in ("network", "space", "system"):
                rel = os.path.join(sub, "%s%d.json" % (k, n))
                with open(os.path.join(tmp, rel), "w", encoding="utf-8") as f:
                    json.dump(d[k], f)
                files[os.path.join(tmp, rel)] = ({"network": "network", "space": "space", "system": "system"}[k], d[k])
                d[k] = os.path.join(tmp, rel) if absolute else rel
            elif k == "state":
                rel = os.path.join(sub, "state%d.npy" % n)
                np.save(os.path.join(tmp, rel), np.array(d["state"]["value"], dtype=float))
                files[os.path.join(tmp, rel)] = (None, list(d["state"]["value"]))
                d["state"]["value"] = os.path.join(tmp, rel) if absolute else rel
            else:
                npy = rng.random() < 0.5
                rel = os.path.join(sub, "%s%d.%s" % (k, n, "npy" if npy else "txt"))
                if npy:
                    np.save(os.path.join(tmp, rel), np.array(d[k], dtype=int))
                else:
                    with open(os.path.join(tmp, rel), "w") as f:
                        f.write(rng.choice([" ", ", ", "\n"]).join(str(v) for v in d[k]))
                files[os.path.join(tmp, rel)] = (None, list(d[k]))
                d[k] = os.path.join(tmp, rel) if absolute else rel
            return "file"
    return "none"


def correspond(ctx, aliases):
    from props import c12
    rng = ctx.rng
    n_obj = ctx.n(60, 1500)
    ops, meta = [], []
    tmp_root = tempfile.mkdtemp(prefix="verif_c12m_")
    try:
        idx = 0
        for i in range(n_obj):
            kind = rng.choice(["network", "grid", "graph", "system", "system", "script", "script"])
            spec = c12.GEN[kind](rng)
            x, err = c12.guarded(lambda: c12.BUILD[kind](spec))
            if err is not None:
                continue
            d0, err = c12.guarded(lambda: c12.jsonable_dict(c12.conv(kind)[0](x)))
            if err is not None:
                ctx.count("corr_writer_raises")     # the oracle reports it (mode direct)
                continue
            for (rk, dd) in all_subdicts(kind, d0):
                if rng.random() < (1.0 if rk in ("system", "script", "network", "space") else 0.4):
                    for variant in range(3):
                        d = copy.deepcopy(dd)
                        parent = list(c12.rand_sys(rng))
                        tmp = os.path.join(tmp_root, "c%d" % idx)
                        idx += 1
                        os.makedirs(tmp, exist_ok=True)
                        files, tags = {}, []
                        if variant > 0:
                            for _ in range(rng.randint(1, 3)):
                                # edit the dictionary itself or one nested dictionary
                                subs = [(k2, d2) for (k2, d2) in all_subdicts_of(rk, d)]
                                k2, d2 = rng.choice(subs)
                                tags.append(edit(rng, aliases, k2, d2, tmp if d2 is d or k2 in ("system", "space") else None, files))
                        ops.append({"op": "from_dict", "kind": rk, "d": enc(tok(aliases, dict_kind(rk, d) if rk != "space" else "space", d)),
                                    "parent": {"space": parent[0], "time": parent[1], "quantity": parent[2]}, "base": tmp,
                                    "files": {p: enc(tok(aliases, fk, fd) if fk else fd) for p, (fk, fd) in files.items()}})
                        meta.append((rk, d, parent, tmp, tags))
        # process_input_dict_keys alone, on small dictionaries (insertion order included)
        kops, kmeta = [], []
        for i in range(ctx.n(300, 5000)):
            syn = [["a", "a1", "a2"], ["b", "b1"], ["c"], ["d d", "dd"]][:rng.randint(1, 4)]
            keys = rng.sample(["a", "a1", "a2", "b", "b1", "c", "d d", "dd", "zz"], rng.randint(0, 4))
            dd = {k: j for j, k in enumerate(keys)}
            kops.append({"op": "process_keys", "synonyms": syn, "d": enc(dd)})
            kmeta.append((syn, dd))
        # paths
        pops, pmeta = [], []
        for i in range(ctx.n(100, 1000)):
            base = rng.choice([None, "/tmp/x", "/tmp/x/", "/a/b/c", "/"])
            p = rng.choice(["f.json", "sub/f.json", "/abs/f.npy", "a/b/c.txt", "f"])
            pops.append({"op": "path_with_base", "path": p, "base": base})
            pmeta.append((p, base))
        res = ctx.model.run(ops + kops + pops)
        r1, r2, r3 = res[:len(ops)], res[len(ops):len(ops) + len(kops)], res[len(ops) + len(kops):]
        for (rk, d, parent, tmp, tags), r, op in zip(meta, r1, ops):
            try:
                view, dd, wk = real_call(rk, d, parent, tmp)
                real = {"obj": norm(view), "dict": norm(enc_out(tok(aliases, wk if wk != "space" else "space", c12.jsonable_dict(dd))))}
            except Exception as ex:  # noqa
                real = {"error": "%s: %s" % (type(ex).__name__, str(ex)[:120])}
            for t in tags or ["canonical"]:
                ctx.count("corr_" + t)
            ctx.count("corr_kind_" + rk)
            ctx.count("corr_real_error" if "error" in real else "corr_real_ok")
            ctx.case(("m", rk, json.dumps(d, sort_keys=True, default=str), tuple(parent)), nontrivial=True,
                     sample={"op": "from_dict", "kind": rk, "edits": tags, "real": "error" if "error" in real else "ok"} if ctx.evaluations % 211 == 0 else None)
            if r is None:
                continue
            case = {"kind": rk, "d": d, "parent": parent, "edits": tags}
            if ("error" in r) != ("error" in real):
                ctx.disagree("from_dict", case, real if "error" in real else "ok", r if "error" in r else "ok")
                continue
            if "error" in r:
                continue
            ro, mo = strip_defaults(real["obj"], norm(r["ok"]["obj"]))
            if ro != mo:
                ctx.disagree("from_dict:object", case, first_diff(ro, mo), None)
                continue
            rd, md = real["dict"], norm(r["ok"]["dict"])
            rd, md = strip_dict_defaults(rd, md)
            if rd != md:
                ctx.disagree("from_dict:to_dict", case, first_diff(rd, md), None)
        for (syn, dd), r in zip(kmeta, r2):
            import strengths.value_processing as vp
            try:
                got = {"ok": [[k, {"$n": rstr(v)}] for k, v in vp.process_input_dict_keys(dd, syn).items()]}
            except Exception:  # noqa
                got = {"error": 1}
            ctx.count("corr_process_keys")
            ctx.case(("k", json.dumps(syn), json.dumps(dd)), nontrivial=bool(dd))
            if r is None:
                continue
            if ("error" in r) != ("error" in got) or ("ok" in r and norm(r["ok"]) != norm(got["ok"])):
                ctx.disagree("process_keys", {"synonyms": syn, "d": dd}, got, r)
        for (p, base), r in zip(pmeta, r3):
            import strengths.filepath as fp
            got = fp.get_path_with_base(p, base)
            par = fp.get_base_path(got) if os.path.isabs(got) else None
            ctx.count("corr_paths")
            if r is None:
                continue
            if r["ok"] != got or (par is not None and r["parent"] != par):
                ctx.disagree("path_with_base", {"path": p, "base": base}, {"ok": got, "parent": par}, r)
    finally:
        shutil.rmtree(tmp_root, ignore_errors=True)
    correspond_trajectories(ctx, aliases)


def tok_traj(aliases, d):
    """tokenised form of the JSON file written by save_rdtrajectory"""
    out = dict(d)
    if isinstance(d.get("script"), dict):
        out["script"] = tok(aliases, "script", d["script"])
    if isinstance(d.get("system"), dict):
        out["system"] = tok(aliases, "system", d["system"])
    return out


def rv_traj(t):
    return {"data": rv_arr(t.data), "t": rv_arr(t.t), "system": rv_system(t.system),
            "script": None if t.script is None else rv_script(t.script), "engine_description": t.engine_description,
            "engine_option": t.engine_option, "cgmap": None if t.cgmap is None else [int(v) for v in t.cgmap]}


def correspond_trajectories(ctx, aliases):
    """model `loadTrajectory` / `trajToDict` vs the real save_rdtrajectory / load_rdtrajectory, both storage modes"""
    from props import c12
    import numpy as np
    import strengths.rdoutput as ro
    rng = ctx.rng
    root = tempfile.mkdtemp(prefix="verif_c12t_")
    ops, meta = [], []
    try:
        for i in range(ctx.n(30, 600)):
            spec = c12.gen_trajectory(rng)
            x, err = c12.guarded(lambda: c12.build_trajectory(spec))
            if err is not None:
                continue
            separate = rng.random() < 0.5
            stem = "traj%d" % i
            d = os.path.join(root, "t%d" % i)
            os.makedirs(d)
            given = os.path.join(d, stem + (".json" if rng.random() < 0.5 else ""))
            try:
                ro.save_rdtrajectory(x, given, separate_data=separate)
                jp = os.path.join(d, stem + ".json")
                saved = json.load(open(jp, encoding="utf-8"))
                real = ro.load_rdtrajectory(jp)
                rview = norm(rv_traj(real))
            except Exception as ex:  # noqa
                ctx.count("corr_traj_real_error")
                continue
            files = {jp: enc(tok_traj(aliases, saved))}
            if separate:
                files[os.path.join(d, stem + "_data.npy")] = enc(np.load(os.path.join(d, stem + "_data.npy")).tolist())
            # a faulted variant now and then: the data file missing / an entry dropped
            fault = None
            if rng.random() < 0.15:
                fault = rng.choice(["engine_option", "t_sample", "system", "data"])
                sv = dict(saved)
                del sv[fault]
                files[jp] = enc(tok_traj(aliases, sv))
                with open(jp, "w", encoding="utf-8") as f:
                    json.dump(sv, f)
                try:
                    ro.load_rdtrajectory(jp)
                    rview = "ok"
                except Exception:  # noqa
                    rview = None
            ops.append({"op": "traj_load", "dir": d, "file": stem + ".json", "files": files,
                        "data_ref": (stem + "_data.npy") if separate else None})
            meta.append((spec, separate, rview, norm(enc_out(tok_traj(aliases, saved))), fault))
        res = ctx.model.run(ops)
        for (spec, separate, rview, rdict, fault), r in zip(meta, res):
            ctx.count("corr_traj_separate" if separate else "corr_traj_inline")
            ctx.case(("mt", json.dumps(spec, sort_keys=True), separate, fault), nontrivial=True)
            if r is None:
                continue
            case = {"kind": "trajectory", "separate": separate, "fault": fault, "spec": spec}
            if fault is not None:
                if ("error" in r) != (rview is None):
                    ctx.disagree("traj_load", case, "error" if rview is None else "ok", r if "error" in r else "ok")
                continue
            if "error" in r:
                ctx.disagree("traj_load", case, "ok", r)
                continue
            if norm(r["ok"]["obj"]) != rview:
                ctx.disagree("traj_load:object", case, first_diff(rview, norm(r["ok"]["obj"])), None)
            elif norm(r["ok"]["dict"]) != rdict:
                ctx.disagree("traj_load:to_dict", case, first_diff(rdict, norm(r["ok"]["dict"])), None)
    finally:
        shutil.rmtree(root, ignore_errors=True)


def all_subdicts_of(rk, d):
    if rk == "network":
        return all_subdicts("network", d)
    if rk == "space":
        return [("space", d)]
    if rk == "system":
        return all_subdicts("system", d) if isinstance(d.get("network"), dict) else [("system", d)]
    if rk == "script":
        if isinstance(d.get("system"), dict) and isinstance(d["system"].get("network"), dict):
            return all_subdicts("script", d)
        return [("script", d)]
    return [(rk, d)]


def strip_dict_defaults(rd, md):
    """state / chemostats / rng_seed written by the real code after a generated default: not computed by the model"""
    if isinstance(rd, dict) and isinstance(md, dict):
        rd, md = dict(rd), dict(md)
        for k in ("state", "chemostats", "rng_seed"):
            if k in md and md[k] is None and k in rd:
                del rd[k], md[k]
        for k in rd:
            if k in md:
                rd[k], md[k] = strip_dict_defaults(rd[k], md[k])
    return rd, md


def first_diff(a, b, path=""):
    if isinstance(a, dict) and isinstance(b, dict):
        for k in sorted(set(a) | set(b)):
            if k not in a or k not in b:
                return {"path": path + "." + k, "real": a.get(k, "<absent>"), "model": b.get(k, "<absent>")}
            r = first_diff(a[k], b[k], path + "." + k)
            if r:
                return r
        return None
    if isinstance(a, list) and isinstance(b, list):
        if len(a) != len(b):
            return {"path": path + "<len>", "real": len(a), "model": len(b)}
        for i, (x, y) in enumerate(zip(a, b)):
            r = first_diff(x, y, "%s[%d]" % (path, i))
            if r:
                return r
        return None
    if a != b:
        return {"path": path, "real": a, "model": b}
    return None


def replay(ctx, case, out):
    return True, out
