"""C15 — Grid geometry is consistent everywhere, and a grid equals its graph.

Theorems: lean/Strengths/Props/C15.lean (formulas regenerated from rdgridspace.py, kinetics.py, coarsegrain.py,
rdgraphspace.py and SimulationAlgorithm3DBase.hpp: groups IndexPy, GeomPy, EngineCpp).

Correspondence (model vs real code, exhaustive over small grids): positions in all forms (`geom_pos`), the four
neighbour relations cell by cell (`geom_nbrs`: are_neighbors matrix, get_neighbors lists, the cells visited by
kinetics._compute_dspeciesdt_grid, the native engine's neighbour table), `geom_are` (non-number forms, out of
range), `grid_to_graph` (nodes, edges in order, surface, distance, get_edge / get_neighbors of the result).

Oracle (the property's own predicate, written here from the statement, evaluated on the REAL code's results):
index = z*w*h + y*w + x bijection, rejection of outside positions, the face-adjacency relation with the
reflecting / periodic setting per axis, symmetric, the same in all four places; grid_to_graph geometry and
adjacency; Euler trajectories and Python rate law on grid vs on grid_to_graph(grid).

How the real code's neighbour sets are observed:
 * engine: one pure-diffusion Euler step (D=1, V=1, dt=2^-6) from a one-hot state: cell j receives dt * (number of
   its slots pointing at the hot cell);
 * kinetics: compute_dspeciesdt on a pure-diffusion system (rate constant exactly 1) whose state is 8^c per cell c
   (chunks of 17 cells so that every sum is an exact double): the base-8 digits of the result are the visit counts.
"""
import itertools
from fractions import Fraction
from common import frac, rstr, rparse, close
import common

ID = "C15"
LEAN_TARGETS = ["Strengths.Props.C15", "Strengths.Props.C15Rate"]
PROP_FILES = ["Strengths/Props/C15.lean", "Strengths/Props/C15Rate.lean"]
GEN_GROUPS = ["IndexPy", "GeomPy", "EngineCpp"]
RULE = ("exhaustive: every grid shape w,h,d <= 3 (quick) / <= 5 (thorough) x all 8 periodic/reflecting settings; per grid every "
        "cell, every ordered pair of cells, every linear index in [-size-2, 2*size+2], every coordinate triple in "
        "[-1,w]x[-1,h]x[-1,d] as tuple and as object (list / ndarray / numpy integer on a subset); one engine Euler step per "
        "cell; one kinetics derivative per cell and chunk; grid_to_graph of every grid; random systems for grid-vs-graph "
        "trajectories / rate law; re-use: ONE grid object per shape taken through all 8 settings (twice) with "
        "set_boundary_conditions; stochastic engines: Gillespie per-event moves (uniform state, 30 events per face) and tau-leap "
        "one-hot steps on a 3-species network with D = 1, 0, 0.25.  A case is non-trivial when the grid has more than one cell; distinct by "
        "(shape, setting, kind, cell or pair)")
ASSUMPTIONS = [
    "indices and sizes stay below 2^53 (Python computes y and z of get_cell_coordinates through float division) and below 2^31 (C++ int)",
    "the engine's neighbour table is observed through one Euler step of a pure-diffusion system: self-neighbour slots "
    "(periodic axis of length 1) contribute x_i - x_i = 0 and are not observable; they are compared on the model side only",
    "cell volumes are cubes of rational edges (V = a^3); the float cube root is compared with tolerance 1e-9",
]
TRUSTED = ["Python-side oracle of this file (face adjacency written from the property statement)"]

AXES = "xyz"


# ------------------------------------------------------------------------------------------------
# the property's own predicates (Spec), written from the statement
# ------------------------------------------------------------------------------------------------
def spec_index(w, h, d, c):
    return c[2] * w * h + c[1] * w + c[0]


def spec_coords(w, h, d, i):
    return (i % w, (i // w) % h, i // (w * h))


def spec_inside(w, h, d, c):
    return 0 <= c[0] < w and 0 <= c[1] < h and 0 <= c[2] < d


def spec_faces(dims, per, c1, c2):
    """number of cell faces through which c1 touches c2 (0 = not neighbours); for c1 == c2 the faces of a
    periodic axis of length 1 (the cell touches itself)."""
    diff = [k for k in range(3) if c1[k] != c2[k]]
    if len(diff) > 1:
        return 0
    n_faces = 0
    for k in (diff if diff else range(3)):
        n = dims[k]
        for step in (1, -1):
            t = c1[k] + step
            if per[k]:
                t %= n
            if t == c2[k] and 0 <= t < n:
                n_faces += 1
    return n_faces


def spec_adjacent(dims, per, c1, c2):
    return c1 != c2 and spec_faces(dims, per, c1, c2) > 0


# ------------------------------------------------------------------------------------------------
# real-code helpers
# ------------------------------------------------------------------------------------------------
class P:
    def __init__(self, x, y, z):
        self.x, self.y, self.z = x, y, z

    def __repr__(self):
        return "P(%d,%d,%d)" % (self.x, self.y, self.z)


def bc_dict(per):
    return {a: ("periodical" if p else "reflecting") for a, p in zip(AXES, per)}


def mk_grid(w, h, d, per, cell_vol=1.0, cell_env=0, units=None):
    from strengths import RDGridSpace, UnitsSystem
    kw = {}
    if units is not None:
        kw["units_system"] = UnitsSystem(*units)
    return RDGridSpace(w=w, h=h, d=d, cell_vol=cell_vol, cell_env=cell_env, boundary_conditions=bc_dict(per), **kw)


def shape_json(w, h, d, per):
    return {"w": w, "h": h, "d": d, "px": per[0], "py": per[1], "pz": per[2]}


def pos_json(form, v):
    if form == "n":
        return {"n": int(v)}
    return {("a" if form in ("tuple", "list", "nd") else "o"): [int(v[0]), int(v[1]), int(v[2])]}


def pos_real(form, v):
    import numpy as np
    if form == "n":
        return int(v)
    if form == "npint":
        return np.int64(v)
    if form == "tuple":
        return tuple(v)
    if form == "list":
        return list(v)
    if form == "nd":
        return np.array(v)
    return P(*v)


def call(f, *a):
    """(value, None) or (None, 'error')"""
    try:
        return f(*a), None
    except Exception as e:  # noqa
        return None, type(e).__name__


def grid_case(w, h, d, per, **kw):
    c = {"w": w, "h": h, "d": d, "periodic": list(per)}
    c.update(kw)
    return c


# ------------------------------------------------------------------------------------------------
# observation of the engine's and the kinetics functions' neighbour sets
# ------------------------------------------------------------------------------------------------
_NET = {}


def diffusion_net(with_null_reaction):
    from strengths import RDNetwork, Species, Reaction
    if not with_null_reaction:
        if "plain" not in _NET:
            _NET["plain"] = RDNetwork(species=[Species("A", D=1.0)], reactions=[])
        return _NET["plain"]
    if "net" not in _NET:
        # the zero-rate reaction keeps the accumulator of _compute_dspeciesdt_grid a UnitValue even for a cell without
        # neighbours (with no reaction and no neighbour it stays the int 0 and `.convert` raises AttributeError — a defect
        # of the rate-law function outside this property; see the report)
        _NET["net"] = RDNetwork(species=[Species("A", D=1.0)], reactions=[Reaction("A -> ", kf=0, kr=0)])
    return _NET["net"]


DT = 2.0 ** -6


def euler_step(eng, space, state):
    """state after one Euler step of the pure-diffusion system (D = 1, V = 1, dt = 2^-6), real engine"""
    from strengths import RDSystem, RDScript
    n = len(state)
    s = RDSystem(diffusion_net(False), space, state=list(state))
    scr = RDScript(s, t_sample=[0], time_step=DT, sampling_policy="on_iteration", t_max=DT, init_state_processing="none")
    eng.setup(scr)
    try:
        eng.iterate()
        out = eng.get_output()
    finally:
        eng.finalize()
    return [float(v) for v in out.data.value.reshape(-1, n)[-1]]


def engine_onehot(eng, space, n, hot):
    """(x_j/dt for every cell after one Euler step from the one-hot state, total mass)"""
    state = [0.0] * n
    state[hot] = 1.0
    last = euler_step(eng, space, state)
    return [v / DT for v in last], float(sum(last))


def decode_counts(n, chunk_size, derivative):
    """Observe a linear pure-diffusion operator r_j = sum_c a[j][c] * (x_c - x_j) through states x_c = 8^(c - c0) on chunks
    of cells: the base-8 digits of r_j (+ 6 * x_j) are the coupling counts a[j][c] (c != j) and 6 - (number of non-self
    terms of j).  `derivative(state)` -> list of r_j (None where the real code raised) and a dict of errors.
    Returns (a, terms, errors)."""
    a = [[0] * n for _ in range(n)]
    terms = [None] * n
    errs = {}
    for c0 in range(0, n, chunk_size):
        chunk = list(range(c0, min(n, c0 + chunk_size)))
        state = [0.0] * n
        for c in chunk:
            state[c] = float(8 ** (c - c0))
        rs, es = derivative(state)
        errs.update(es)
        for j in range(n):
            if j in errs:
                continue
            r = rs[j]
            if r != int(r):
                errs[j] = "non-integer derivative %r" % r
                continue
            r = int(r)
            if j in chunk:
                r += 6 * 8 ** (j - c0)     # digit of j becomes 6 - (number of non-self terms)
            if r < 0 or r >> (3 * len(chunk)):
                errs[j] = "coupling counts outside 0..6 (derivative %r)" % rs[j]
                continue
            for c in chunk:
                dgt = (r >> (3 * (c - c0))) & 7
                if c == j:
                    terms[j] = 6 - dgt
                else:
                    a[j][c] = dgt
    return a, terms, errs


def kinetics_counts(space, n):
    """a[j][c] = how many times cell c's diffusion term is added for cell j by compute_dspeciesdt (c != j)"""
    from strengths import RDSystem
    from strengths.kinetics import compute_dspeciesdt

    def derivative(state):
        s = RDSystem(diffusion_net(n == 1), space, state=state)
        rs, es = [None] * n, {}
        for j in range(n):
            try:
                rs[j] = compute_dspeciesdt(s, 0, j).value
            except Exception as e:  # noqa
                es[j] = type(e).__name__
        return rs, es
    return decode_counts(n, 17, derivative)       # 6 * 8^16 < 2^53: every partial sum is an exact double


def engine_counts(eng, space, n):
    """a[j][c] = number of neighbour slots of cell j that point at cell c (c != j), from Euler steps of the real engine"""
    def derivative(state):
        last = euler_step(eng, space, state)
        return [(last[j] - state[j]) / DT for j in range(n)], {}
    return decode_counts(n, 15, derivative)       # 8^14 * 6 * 2^6 < 2^53: x + dt * dxdt is exact


# ------------------------------------------------------------------------------------------------
# one grid: everything
# ------------------------------------------------------------------------------------------------
def check_grid(ctx, eng, w, h, d, per, do_engine=True, do_kin=True, tag=""):
    import numpy as np
    from strengths.coarsegrain import grid_to_graph
    dims = (w, h, d)
    n = w * h * d
    sj = shape_json(w, h, d, per)
    genv = [(3 * i + w + 2 * h) % 4 for i in range(n)]      # a cell_env map that tells the cells apart
    g = mk_grid(w, h, d, per)
    g_env = mk_grid(w, h, d, per, cell_env=genv)       # (the engine / kinetics systems on `g` have one environment)
    cells = [spec_coords(w, h, d, i) for i in range(n)]
    nontriv = n > 1
    pkey = "".join("P" if p else "R" for p in per)
    ctx.count("grids")
    ctx.count("setting_" + pkey)
    ctx.count("cells_%s" % ("1" if n == 1 else "2-8" if n <= 8 else "9-27" if n <= 27 else "28+"))
    for k in range(3):
        if per[k]:
            ctx.count("periodic_axis_len_%s" % (dims[k] if dims[k] < 3 else "3+"))

    # ------------------------------------------------------------------ A. positions
    positions = [("n", p) for p in range(-n - 2, 2 * n + 3)]
    for x in range(-1, w + 1):
        for y in range(-1, h + 1):
            for z in range(-1, d + 1):
                positions.append(("tuple", (x, y, z)))
                positions.append(("obj", (x, y, z)))
    extra = []
    for form, v in positions[::5]:
        if form == "tuple":
            extra.append(("list", v))
            extra.append(("nd", v))
        elif form == "n":
            extra.append(("npint", v))
    positions += extra
    pos_ops = [pos_json("n" if f == "npint" else f, v) for f, v in positions]
    ops = [{"op": "geom_pos", "shape": sj, "pos": pos_ops}, {"op": "geom_nbrs", "shape": sj}]

    real_pos = []
    for form, v in positions:
        rp = pos_real(form, v)
        wb, e0 = call(g.is_within_bounds, rp)
        idx, e1 = call(g.get_cell_index, rp)
        co, e2 = (None, None)
        if form in ("n", "npint"):
            co, e2 = call(g.get_cell_coordinates, rp)
        real_pos.append((wb, e0, idx, e1, co, e2))
        # ---- oracle
        if form in ("n", "npint"):
            inside = 0 <= v < n
            want_idx = v if inside else None
            want_co = spec_coords(w, h, d, v) if inside else None
        else:
            inside = spec_inside(w, h, d, v)
            want_idx = spec_index(w, h, d, v) if inside else None
            want_co = None
        fkind = "num" if form in ("n", "npint") else ("obj" if form == "obj" else "arr")
        case = grid_case(w, h, d, per, kind="position", form=form, value=list(v) if not isinstance(v, int) else v)
        if v == 0 or v == (0, 0, 0):
            ctx.case(("pos", dims, per, form), nontrivial=nontriv)
        else:
            ctx.evaluations += 1
        ctx.count("pos_" + ("inside" if inside else "outside"))
        if e0 is not None or bool(wb) != inside:
            ctx.violation("bounds:%s" % fkind, "is_within_bounds(%s %r) on a %dx%dx%d grid is %r, the position %s a cell"
                          % (form, v, w, h, d, wb if e0 is None else e0, "names" if inside else "does not name"),
                          case, impl=wb if e0 is None else e0, expected=inside)
        if inside:
            if e1 is not None or idx != want_idx:
                ctx.violation("index:%s" % fkind, "get_cell_index(%s %r) = %r, expected z*w*h+y*w+x = %r" % (form, v, idx if e1 is None else e1, want_idx),
                              case, impl=idx if e1 is None else e1, expected=want_idx)
        elif e1 is None:
            ctx.violation("reject-index:%s" % fkind, "get_cell_index(%s %r) outside the %dx%dx%d grid returned %r instead of raising" % (form, v, w, h, d, idx),
                          case, impl=idx, expected="exception")
        if form in ("n", "npint"):
            if inside:
                if e2 is not None or tuple(co) != want_co:
                    ctx.violation("coords", "get_cell_coordinates(%r) = %r, expected %r" % (v, co if e2 is None else e2, want_co),
                                  case, impl=co if e2 is None else e2, expected=list(want_co))
                else:
                    # bijection, through every form
                    for f2 in ("tuple", "obj"):
                        back, eb = call(g.get_cell_index, pos_real(f2, co))
                        if eb is not None or back != v:
                            ctx.violation("bijection", "get_cell_index(get_cell_coordinates(%d)) = %r" % (v, back if eb is None else eb),
                                          case, impl=back if eb is None else eb, expected=v)
            elif e2 is None:
                ctx.violation("reject-coords", "get_cell_coordinates(%r) outside the %dx%dx%d grid returned %r instead of raising" % (v, w, h, d, co),
                              case, impl=list(co), expected="exception")
        # every other accessor that takes a position: the cell's own data inside, a refusal outside (negative linear indices
        # in [-size, -1] included: they must not wrap around)
        for acc in ("get_cell_env", "get_cell_vol", "get_neighbors"):
            r, e = call(getattr(g_env, acc), rp)
            ctx.evaluations += 1
            if inside:
                if acc == "get_cell_env":
                    okv = e is None and int(r) == genv[want_idx]
                elif acc == "get_cell_vol":
                    okv = e is None and float(r.value) == 1.0
                else:
                    okv = e is None and sorted(set(int(x) for x in r) - {want_idx}) == \
                        sorted(j for j in range(n) if spec_adjacent(dims, per, cells[want_idx], cells[j]))
                if not okv:
                    ctx.violation("accessor:%s:%s" % (acc, fkind), "%s(%s %r) on %dx%dx%d %s = %r, not the data of cell %d"
                                  % (acc, form, v, w, h, d, pkey, r if e is None else e, want_idx), dict(case, accessor=acc),
                                  impl=repr(r) if e is None else e, expected="data of cell %d" % want_idx)
            elif e is None:
                ctx.violation("reject-%s:%s" % (acc, fkind), "%s(%s %r) outside the %dx%dx%d grid returned %r instead of raising"
                              % (acc, form, v, w, h, d, r), dict(case, accessor=acc), impl=repr(r), expected="exception")
                ctx.count("accessor_outside_accepted")

    # ------------------------------------------------------------------ A'. non-integer coordinates: truncated PER COORDINATE
    # (the code applies int() to each coordinate): a position whose coordinates have their integer parts inside the grid
    # names the cell of those integer parts, through every accessor
    fr = [0.5, 0.25, 0.75]
    for i in range(n):
        c = cells[i]
        fc = (c[0] + fr[i % 3], c[1] + fr[(i + 1) % 3], c[2] + fr[(i + 2) % 3])
        for form in (("tuple", "obj") if i % 2 == 0 else ("list", "nd", "npfloat")):
            if form == "tuple":
                rp = tuple(fc)
            elif form == "list":
                rp = list(fc)
            elif form == "nd":
                rp = np.array(fc)
            elif form == "npfloat":
                rp = (np.float64(fc[0]), np.float32(fc[1]), fc[2])
            else:
                rp = P(*fc)
            case = grid_case(w, h, d, per, kind="position", form=form + "-fractional", value=list(fc))
            ctx.case(("frac", dims, per, i, form), nontrivial=nontriv)
            ctx.count("pos_fractional")
            wb, e0 = call(g_env.is_within_bounds, rp)
            idx, e1 = call(g_env.get_cell_index, rp)
            env, e2 = call(g_env.get_cell_env, rp)
            nb, e3 = call(g_env.get_neighbors, rp)
            nb_ref, _ = call(g_env.get_neighbors, i)
            j = (i + 1) % n
            an, e4 = call(g_env.are_neighbors, rp, j)
            an_ref, _ = call(g_env.are_neighbors, i, j)
            got = {"is_within_bounds": wb if e0 is None else e0, "get_cell_index": idx if e1 is None else e1,
                   "get_cell_env": (int(env) if e2 is None else e2), "get_neighbors": ([int(x) for x in nb] if e3 is None else e3),
                   "are_neighbors(.,%d)" % j: (bool(an) if e4 is None else e4)}
            want = {"is_within_bounds": True, "get_cell_index": i, "get_cell_env": genv[i],
                    "get_neighbors": [int(x) for x in nb_ref] if nb_ref is not None else None, "are_neighbors(.,%d)" % j: bool(an_ref)}
            if got != want:
                bad = sorted(k for k in want if got[k] != want[k])
                ctx.violation("index:fractional", "position %r (%s) on %dx%dx%d %s: %s = %r, the cell of the truncated coordinates %r is %d (%s expected %r)"
                              % (list(fc), form, w, h, d, pkey, bad[0], got[bad[0]], list(c), i, bad[0], want[bad[0]]),
                              case, impl={k: repr(v) for k, v in got.items()}, expected={k: repr(v) for k, v in want.items()})

    # ------------------------------------------------------------------ B. are_neighbors, all ordered pairs
    are = [[None] * n for _ in range(n)]
    for i in range(n):
        for j in range(n):
            v, e = call(g.are_neighbors, i, j)
            are[i][j] = bool(v) if e is None else None
            want = spec_adjacent(dims, per, cells[i], cells[j])
            if j == 0:
                ctx.case(("are", dims, per, i), nontrivial=nontriv)
            else:
                ctx.evaluations += 1
            if e is not None or bool(v) != want:
                if i != j or e is not None or v:   # the statement is about distinct cells; a cell is never its own neighbour here
                    ctx.violation("are_neighbors", "are_neighbors(%d, %d) on %dx%dx%d %s = %r, face adjacency says %r"
                                  % (i, j, w, h, d, pkey, v if e is None else e, want),
                                  grid_case(w, h, d, per, kind="are", i=i, j=j), impl=v if e is None else e, expected=want)
    for i in range(n):
        for j in range(i + 1, n):
            if are[i][j] != are[j][i]:
                ctx.violation("are_neighbors-symmetry", "are_neighbors(%d,%d) = %r but are_neighbors(%d,%d) = %r" % (i, j, are[i][j], j, i, are[j][i]),
                              grid_case(w, h, d, per, kind="are", i=i, j=j), impl=[are[i][j], are[j][i]], expected="equal")
    # other forms + outside positions
    pairs = []
    rng = ctx.rng
    forms = ["n", "tuple", "obj", "list"]
    for _ in range(min(40, 4 * n + 6)):
        i, j = rng.randrange(n), rng.randrange(n)
        f1, f2 = rng.choice(forms), rng.choice(forms)
        pairs.append(((f1, i if f1 == "n" else cells[i]), (f2, j if f2 == "n" else cells[j]), True))
    outs = [("n", -1), ("n", -n), ("n", -n - 1), ("n", n), ("n", n + 3), ("tuple", (w, 0, 0)), ("obj", (0, -1, 0)), ("tuple", (0, 0, d)),
            ("tuple", (-1, 0, 0)), ("obj", (0, 0, -d))]
    for o in outs:
        i = rng.randrange(n)
        pairs.append((o, ("n", i), False))
        pairs.append((("tuple", cells[i]), o, False))
    ops.append({"op": "geom_are", "shape": sj, "pairs": [[pos_json(a[0], a[1]), pos_json(b[0], b[1])] for a, b, _ in pairs]})
    real_pairs = []
    for a, b, inside in pairs:
        v, e = call(g.are_neighbors, pos_real(*a), pos_real(*b))
        real_pairs.append(None if e is not None else bool(v))
        case = grid_case(w, h, d, per, kind="are_forms", a=[a[0], a[1]], b=[b[0], b[1]])
        ctx.case(("aref", dims, per, str(a), str(b)), nontrivial=nontriv)
        if inside:
            ca = spec_coords(w, h, d, a[1]) if a[0] == "n" else tuple(a[1])
            cb = spec_coords(w, h, d, b[1]) if b[0] == "n" else tuple(b[1])
            want = spec_adjacent(dims, per, ca, cb)
            if e is not None or bool(v) != want:
                ctx.violation("are_neighbors:forms", "are_neighbors(%r, %r) = %r, face adjacency says %r" % (a, b, v if e is None else e, want),
                              case, impl=v if e is None else e, expected=want)
        elif e is None:
            ctx.violation("reject-are_neighbors", "are_neighbors(%r, %r) with a position outside the grid returned %r" % (a, b, v),
                          case, impl=v, expected="exception")

    # ------------------------------------------------------------------ C. get_neighbors
    getn = []
    for i in range(n):
        v, e = call(g.get_neighbors, i)
        getn.append(None if e is not None else [int(x) for x in v])
        want = sorted(j for j in range(n) if spec_adjacent(dims, per, cells[i], cells[j]))
        ctx.case(("get", dims, per, i), nontrivial=nontriv)
        got = None if e is not None else sorted(set(int(x) for x in v) - {i})
        if got != want:
            ctx.violation("get_neighbors", "get_neighbors(%d) on %dx%dx%d %s names %r, the neighbours are %r" % (i, w, h, d, pkey, v if e is None else e, want),
                          grid_case(w, h, d, per, kind="get", i=i), impl=v if e is None else e, expected=want)
        if i % 3 == 0:   # same answer through the other position forms
            for f in ("tuple", "obj"):
                v2, e2 = call(g.get_neighbors, pos_real(f, cells[i]))
                if (e2 is None) != (e is None) or (e is None and [int(x) for x in v2] != getn[-1]):
                    ctx.violation("get_neighbors:forms", "get_neighbors differs between position forms for cell %d" % i,
                                  grid_case(w, h, d, per, kind="get", i=i), impl=[v, v2], expected="equal")

    # ------------------------------------------------------------------ D. kinetics enumeration
    kin = None
    if do_kin:
        visits, tot, errs = kinetics_counts(g, n)
        kin = (visits, tot, errs)
        ctx.count("kinetics_derivatives", n * ((n + 16) // 17))
        for j in range(n):
            ctx.case(("kin", dims, per, j), nontrivial=nontriv)
            want = sorted(c for c in range(n) if spec_adjacent(dims, per, cells[j], cells[c]))
            got = None if j in errs else sorted(c for c in range(n) if c != j and visits[j][c] > 0)
            if got != want:
                ctx.violation("kinetics-enum", "compute_dspeciesdt on %dx%dx%d %s couples cell %d with %r, its neighbours are %r"
                              % (w, h, d, pkey, j, errs.get(j, got), want),
                              grid_case(w, h, d, per, kind="kin", j=j), impl=errs.get(j, got), expected=want)
        ctx.count("kinetics_grids")

    # ------------------------------------------------------------------ F. grid_to_graph (before E: the engine compares with it)
    a_edge = [Fraction(1), Fraction(1, 2), Fraction(2), Fraction(3, 2), Fraction(3)][(w + 2 * h + 3 * d + sum(per)) % 5]
    envs = [(i * 7 + w + h) % 3 for i in range(n)]
    units = [None, ("m", "s", "mol"), ("nm", "ms", "molecule"), ("dm", "min", "µmol")][(w * 3 + h + d + per[0]) % 4]
    vol = float(a_edge ** 3)
    g2 = mk_grid(w, h, d, per, cell_vol=vol, cell_env=envs, units=units)
    ops.append({"op": "grid_to_graph", "shape": sj, "a": rstr(a_edge), "envs": envs})
    gr, eg = call(grid_to_graph, g2)
    gcase = grid_case(w, h, d, per, kind="g2g", a=rstr(a_edge), envs=envs, units=units)
    ctx.case(("g2g", dims, per), nontrivial=nontriv)
    real_graph = None
    if eg is not None:
        ctx.violation("g2g-raises", "grid_to_graph raised %s on a valid grid" % eg, gcase, impl=eg, expected="graph")
    else:
        us = g2.units_system
        nodes = [(nd.volume.value, nd.environment, (nd.units_system.space, nd.units_system.time, nd.units_system.quantity),
                  str(nd.volume.units)) for nd in gr.nodes]
        edges = [(e.i, e.j, e.surface.value, e.distance.value, str(e.surface.units), str(e.distance.units)) for e in gr.edges]
        real_graph = (gr, nodes, edges)
        usx = (us.space, us.time, us.quantity)
        ok_nodes = len(nodes) == n and all(close(v, frac(vol)) and env == envs[i] and u == usx and vu == us.space + "3"
                                           for i, (v, env, u, vu) in enumerate(nodes))
        if not ok_nodes or (gr.units_system.space, gr.units_system.time, gr.units_system.quantity) != usx:
            ctx.violation("g2g-nodes", "grid_to_graph does not preserve volumes / environments / units", gcase,
                          impl=nodes[:8], expected={"volume": vol, "envs": envs, "units": usx})
        bad_geo = [e for e in edges if not (close(e[2], a_edge ** 2) and close(e[3], a_edge) and e[4] == us.space + "2" and e[5] == us.space)]
        if bad_geo:
            ctx.violation("g2g-geometry", "edge surface / distance differ from cell face a^2 / cell edge a (a=%s)" % a_edge, gcase,
                          impl=bad_geo[:4], expected={"surface": float(a_edge ** 2), "distance": float(a_edge)})
        # adjacency: multiset of unordered pairs = faces
        mult = {}
        for e in edges:
            k = (min(e[0], e[1]), max(e[0], e[1]))
            mult[k] = mult.get(k, 0) + 1
        want = {}
        for i in range(n):
            for j in range(i, n):
                f = spec_faces(dims, per, cells[i], cells[j])
                if i == j:
                    f //= 2     # a self-face pair (periodic axis of length 1) is one edge
                if f:
                    want[(i, j)] = f
        if mult != want:
            diff = sorted(set(mult.items()) ^ set(want.items()))[:6]
            ctx.violation("g2g-adjacency", "edges of grid_to_graph(%dx%dx%d %s) are not the face pairs of the grid: %r" % (w, h, d, pkey, diff),
                          gcase, impl=sorted(mult.items())[:12], expected=sorted(want.items())[:12])

    # ------------------------------------------------------------------ F'. the same with a cell volume that carries its OWN unit
    # (text / UnitValue in a space unit other than the grid's units-system one): judged in SI, value AND unit label together
    from strengths import UnitValue
    from props.c06 import si_space
    fsel = (w + h * 2 + d * 5 + 3 * sum(per)) % 6
    ftext, fa_si = [("8 nm3", Fraction(2, 10 ** 9)), ("27 mm3", Fraction(3, 1000)), ("1 pL", Fraction(1, 10 ** 5)),
                    ("8 fL", Fraction(2, 10 ** 6)), ("0.125 m3", Fraction(1, 2)), ("64 dm3", Fraction(4, 10))][fsel]
    fvol = ftext if (w + h + d) % 2 == 0 else UnitValue(ftext)
    g3 = mk_grid(w, h, d, per, cell_vol=fvol, cell_env=envs, units=units)
    gr3, eg3 = call(grid_to_graph, g3)
    fcase = grid_case(w, h, d, per, kind="g2g", cell_vol=ftext, cell_vol_form="text" if isinstance(fvol, str) else "UnitValue",
                      envs=envs, units=units)
    ctx.case(("g2gu", dims, per), nontrivial=nontriv)
    ctx.count("g2g_foreign_unit_volume")
    if eg3 is not None:
        ctx.violation("g2g-raises", "grid_to_graph raised %s on a grid whose cell volume is %s" % (eg3, ftext), fcase, impl=eg3, expected="graph")
    else:
        def si_of(x, dim):
            u = x.units
            if (u.dim.space, u.dim.time, u.dim.quantity) != (dim, 0, 0):
                return None
            return frac(x.value) * si_space(u.sys.space) ** dim
        badn = [(i, str(nd.volume)) for i, nd in enumerate(gr3.nodes)
                if si_of(nd.volume, 3) is None or not close(si_of(nd.volume, 3), fa_si ** 3) or nd.environment != envs[i]]
        bade = [(e.i, e.j, str(e.surface), str(e.distance)) for e in gr3.edges
                if si_of(e.surface, 2) is None or si_of(e.distance, 1) is None
                or not close(si_of(e.surface, 2), fa_si ** 2) or not close(si_of(e.distance, 1), fa_si)]
        if len(gr3.nodes) != n or badn:
            ctx.violation("g2g-nodes", "grid_to_graph of a grid with cell volume %s: node volumes / environments are not the cells'" % ftext, fcase,
                          impl=badn[:4], expected={"volume_m3": float(fa_si ** 3), "envs": envs})
        if bade:
            ctx.violation("g2g-geometry", "grid_to_graph of a grid with cell volume %s: edge surface / distance (with their units) are not the "
                          "cell face %.3g m2 / the cell edge %.3g m" % (ftext, float(fa_si ** 2), float(fa_si)), fcase,
                          impl=bade[:4], expected={"surface_m2": float(fa_si ** 2), "distance_m": float(fa_si)})

    # ------------------------------------------------------------------ E. engine neighbour relation (Euler steps)
    eng_counts = None
    if do_engine and eng is not None:
        a, terms, errs = engine_counts(eng, g, n)
        eng_counts = [[a[j][hot] for hot in range(n)] for j in range(n)]
        gmult = None
        if real_graph is not None:
            gmult = [[0] * n for _ in range(n)]
            for e in real_graph[2]:
                if e[0] != e[1] and 0 <= e[0] < n and 0 <= e[1] < n:
                    gmult[e[0]][e[1]] += 1
                    gmult[e[1]][e[0]] += 1
            ag, termsg, errsg = engine_counts(eng, grid_to_graph(g), n)
        for j in range(n):
            ctx.case(("eng", dims, per, j), nontrivial=nontriv)
            ecase = grid_case(w, h, d, per, kind="engine", cell=j)
            want = sorted(c for c in range(n) if spec_adjacent(dims, per, cells[j], cells[c]))
            got = errs.get(j) or sorted(c for c in range(n) if c != j and a[j][c] > 0)
            if got != want:
                # make it concrete: one-hot states at the cells in question
                hots = sorted(set(want) ^ set(got)) if isinstance(got, list) else want[:1]
                obs = {}
                for hot in hots[:3]:
                    cnt, total = engine_onehot(eng, g, n, hot)
                    obs[hot] = cnt[j]
                ctx.violation("engine-nbr", "Euler step on %dx%dx%d %s: cell %d exchanges matter with cells %r, its neighbours are %r "
                              "(one-hot at c -> x_%d/dt: %r)" % (w, h, d, pkey, j, got, want, j, obs), ecase, impl=got, expected=want)
            elif gmult is not None and (j in errsg or any(c != j and ag[j][c] != a[j][c] for c in range(n)) or termsg[j] != terms[j]):
                ctx.violation("grid-vs-graph-step", "one Euler diffusion step differs between the grid and grid_to_graph(grid) at cell %d" % j,
                              ecase, impl={"grid": a[j], "graph": errsg.get(j, ag[j])}, expected="equal")
            elif gmult is not None and any(c != j and a[j][c] != gmult[j][c] for c in range(n)):
                ctx.violation("engine-vs-graph-multiplicity", "cell %d: the engine couples it to its neighbours with multiplicities %r, "
                              "grid_to_graph has %r parallel edges" % (j, a[j], gmult[j]), ecase, impl=a[j], expected=gmult[j])
        # symmetry of the coupling (what conservation needs) and one genuine one-hot step per grid
        for j in range(n):
            for c in range(j + 1, n):
                if a[j][c] != a[c][j] and j not in errs and c not in errs:
                    ctx.violation("engine-nbr-symmetry", "engine couples cell %d to %d %d times but %d to %d %d times" % (j, c, a[j][c], c, j, a[c][j]),
                                  grid_case(w, h, d, per, kind="engine", cell=j), impl=[a[j][c], a[c][j]], expected="equal")
        hot = (w + 2 * h + 3 * d) % n
        cnt, total = engine_onehot(eng, g, n, hot)
        ctx.case(("eng1", dims, per, hot), nontrivial=nontriv)
        if abs(total - 1.0) > 1e-12 or any(cnt[j] != a[j][hot] for j in range(n) if j != hot):
            ctx.violation("engine-onehot", "one Euler step from the one-hot state at cell %d: total %r, x_j/dt = %r" % (hot, total, cnt),
                          grid_case(w, h, d, per, kind="engine", cell=hot), impl=cnt, expected=[a[j][hot] for j in range(n)])
        ctx.count("engine_grids")

    return {"ops": ops, "positions": positions, "real_pos": real_pos, "are": are, "pairs": pairs, "real_pairs": real_pairs,
            "getn": getn, "kin": kin, "eng": eng_counts, "graph": real_graph, "dims": dims, "per": per, "n": n, "a": a_edge,
            "gcase": gcase}


def check_reuse(ctx, w, h, d):
    """ONE grid object taken through all 8 settings with set_boundary_conditions (twice, second pass in another order):
    every query must follow the CURRENT setting (no stale state from earlier queries)"""
    from strengths.coarsegrain import grid_to_graph
    dims = (w, h, d)
    n = w * h * d
    cells = [spec_coords(w, h, d, i) for i in range(n)]
    g = mk_grid(w, h, d, (False, False, False))
    settings = list(itertools.product([False, True], repeat=3))
    order = settings + [settings[k] for k in ctx.rng.sample(range(8), 8)]
    prev = None
    for step, per in enumerate(order):
        full = step < 8      # second pass (other order): the neighbour query only
        pkey = "".join("P" if p else "R" for p in per)
        g.set_boundary_conditions(bc_dict(per))
        case = grid_case(w, h, d, per, kind="reuse", previous=list(prev) if prev is not None else None)
        ctx.case(("reuse", dims, per, prev), nontrivial=n > 1)
        ctx.count("reuse_settings")
        got_bc = g.get_boundary_conditions()
        if got_bc != bc_dict(per):
            ctx.violation("reuse:get_boundary_conditions", "after set_boundary_conditions(%s) the grid reports %r" % (pkey, got_bc), case,
                          impl=got_bc, expected=bc_dict(per))
        for i in range(n):
            want = sorted(j for j in range(n) if spec_adjacent(dims, per, cells[i], cells[j]))
            v, e = call(g.get_neighbors, i)
            got = None if e is not None else sorted(set(int(x) for x in v) - {i})
            if got != want:
                ctx.violation("reuse:get_neighbors", "same %dx%dx%d grid object, setting changed %s -> %s with set_boundary_conditions: "
                              "get_neighbors(%d) = %r, the neighbours under the current setting are %r"
                              % (w, h, d, "".join("P" if p else "R" for p in prev) if prev is not None else "(fresh)", pkey, i, v if e is None else e, want),
                              dict(case, i=i), impl=v if e is None else e, expected=want)
                break
            arow = [j for j in range(n) if j != i and call(g.are_neighbors, i, j)[0]] if full else want
            if arow != want:
                ctx.violation("reuse:are_neighbors", "same grid object after set_boundary_conditions(%s): are_neighbors(%d, .) holds for %r, expected %r"
                              % (pkey, i, arow, want), dict(case, i=i), impl=arow, expected=want)
                break
        gr, eg = call(grid_to_graph, g) if full else (None, "skipped")
        if eg is None:
            mult = {}
            for e in gr.edges:
                k = (min(e.i, e.j), max(e.i, e.j))
                mult[k] = mult.get(k, 0) + 1
            want = {}
            for i in range(n):
                for j in range(i, n):
                    f = spec_faces(dims, per, cells[i], cells[j])
                    if i == j:
                        f //= 2
                    if f:
                        want[(i, j)] = f
            if mult != want:
                ctx.violation("reuse:grid_to_graph", "same grid object after set_boundary_conditions(%s): grid_to_graph edges are not the face pairs" % pkey,
                              case, impl=sorted(mult.items())[:12], expected=sorted(want.items())[:12])
        prev = per


# ------------------------------------------------------------------------------------------------
# the neighbour relation as the STOCHASTIC engines use it (several species with different D)
# ------------------------------------------------------------------------------------------------
def stoch_net():
    if "stoch" not in _NET:
        from strengths import RDNetwork, Species
        # A diffuses, B does not (D = 0), C diffuses more slowly: a wrong species / direction stride shows as a B that moves
        # or as an A / C that cannot reach a neighbour
        _NET["stoch"] = RDNetwork(species=[Species("A", D=1.0), Species("B", D=0.0), Species("C", D=0.25)], reactions=[])
    return _NET["stoch"]


def gillespie_events(eng, space, n, n_events, seed):
    """per-event moves of a Gillespie run from a uniform state: list of (species, src, dst) (src == dst for a self hop)"""
    import numpy as np
    from strengths import RDSystem, RDScript
    nsp = 3
    s = RDSystem(stoch_net(), space, state=[40.0] * (nsp * n))
    scr = RDScript(s, t_sample=[0], time_step=1e-3, sampling_policy="on_iteration", t_max=1e9, rng_seed=seed, init_state_processing="none")
    eng.setup(scr)
    try:
        eng.iterate_n(n_events)
        out = eng.get_output()
    finally:
        eng.finalize()
    data = np.asarray(out.data.value).reshape(-1, nsp, n)
    moves, bad = [], []
    for k in range(1, data.shape[0]):
        dlt = data[k] - data[k - 1]
        nz = np.argwhere(dlt != 0)
        if len(nz) == 0:
            moves.append((None, None, None))
            continue
        if len(nz) != 2 or nz[0][0] != nz[1][0] or sorted(dlt[tuple(x)] for x in nz) != [-1.0, 1.0]:
            bad.append((k, [(int(a), int(b), float(dlt[a, b])) for a, b in nz][:6]))
            continue
        sp = int(nz[0][0])
        src = int(nz[0][1]) if dlt[tuple(nz[0])] < 0 else int(nz[1][1])
        dst = int(nz[1][1]) if dlt[tuple(nz[0])] < 0 else int(nz[0][1])
        moves.append((sp, src, dst))
    return moves, bad, data.shape[0] - 1


def tauleap_onehot(eng, space, n, hotA, hotC, seed):
    """state after ONE tau-leap step: A (D=1) and B (D=0) start in cell hotA, C (D=0.25) in cell hotC"""
    import numpy as np
    from strengths import RDSystem, RDScript
    nsp = 3
    st = np.zeros((nsp, n))
    st[0, hotA] = 4096.0
    st[1, hotA] = 4096.0
    st[2, hotC] = 16384.0
    s = RDSystem(stoch_net(), space, state=list(st.reshape(-1)))
    dt = 2.0 ** -6
    scr = RDScript(s, t_sample=[0], time_step=dt, sampling_policy="on_iteration", t_max=dt, rng_seed=seed, init_state_processing="none")
    eng.setup(scr)
    try:
        eng.iterate()
        out = eng.get_output()
    finally:
        eng.finalize()
    return np.asarray(out.data.value).reshape(-1, nsp, n)[-1], st


def check_stochastic(ctx, engs, w, h, d, per, hots, do_gillespie=True):
    """the face-neighbour relation as tau-leap and Gillespie use it, for a network of three species with D = 1, 0, 0.25"""
    dims = (w, h, d)
    n = w * h * d
    cells = [spec_coords(w, h, d, i) for i in range(n)]
    pkey = "".join("P" if p else "R" for p in per)
    g = mk_grid(w, h, d, per)
    seed = 1 + (ctx.seed * 7919 + w * 131 + h * 17 + d * 5 + sum(per)) % 100000
    adj = {(i, j) for i in range(n) for j in range(n) if i != j and spec_adjacent(dims, per, cells[i], cells[j])}
    names = "ABC"
    # ---- Gillespie: every single event is one molecule of a diffusing species crossing one face
    n_ev = 30 * max(1, len(adj)) + 60     # P(a given face is never crossed) ~ exp(-24)
    moves, bad, done = gillespie_events(engs["gillespie"], g, n, n_ev, seed) if do_gillespie else ([], [], 0)
    gcase = grid_case(w, h, d, per, kind="gillespie", seed=seed, events=n_ev)
    if do_gillespie:
        ctx.case(("gil", dims, per), nontrivial=n > 1)
        ctx.count("gillespie_grids")
    ctx.count("gillespie_events", done)
    if bad:
        ctx.violation("gillespie-event-shape", "a Gillespie event of a pure-diffusion system is not one molecule moving between two cells: %r" % (bad[:2],),
                      gcase, impl=bad[:3], expected="-1 in one cell, +1 in another, same species")
    seen = set()
    for sp, a, b in moves:
        if sp is None:
            continue
        if sp == 1:
            ctx.violation("stochastic-nbr:D0-moves", "Gillespie on %dx%dx%d %s: species B (D = 0) moved from cell %d to %d" % (w, h, d, pkey, a, b),
                          gcase, impl=[names[sp], a, b], expected="B never moves")
            break
        if (a, b) not in adj:
            ctx.violation("stochastic-nbr:gillespie", "Gillespie on %dx%dx%d %s: a molecule of %s hopped from cell %d to cell %d, which are not face neighbours"
                          % (w, h, d, pkey, names[sp], a, b), gcase, impl=[names[sp], a, b], expected=sorted(j for (i, j) in adj if i == a))
            break
        if sp == 0:
            seen.add((a, b))
    else:
        if do_gillespie and adj and done >= n_ev and seen != adj:
            miss = sorted(adj - seen)[:6]
            ctx.violation("stochastic-nbr:gillespie-unreached", "Gillespie on %dx%dx%d %s: in %d events species A (D = 1, 40 molecules per cell) never "
                          "crossed the faces %r" % (w, h, d, pkey, done, miss), gcase, impl=sorted(seen)[:20], expected=sorted(adj)[:20])
        elif not adj and any(m[0] is not None for m in moves):
            pass
    # ---- tau-leap: one step from one-hot states
    for hot in hots:
        hotC = (hot + 1) % n
        last, st0 = tauleap_onehot(engs["tauleap"], g, n, hot, hotC, seed + hot)
        tcase = grid_case(w, h, d, per, kind="tauleap", seed=seed + hot, hot=hot, hotC=hotC)
        ctx.case(("tau", dims, per, hot), nontrivial=n > 1)
        ctx.count("tauleap_steps")
        for sp, src in ((0, hot), (2, hotC)):
            got = sorted(j for j in range(n) if j != src and last[sp, j] != 0)
            want = sorted(j for j in range(n) if (src, j) in adj)
            if got != want:
                ctx.violation("stochastic-nbr:tauleap", "tau-leap on %dx%dx%d %s: after one step species %s started in cell %d is found in cells %r, "
                              "its face neighbours are %r" % (w, h, d, pkey, names[sp], src, got, want), tcase,
                              impl=[float(v) for v in last[sp]], expected=want)
            if abs(float(last[sp].sum()) - float(st0[sp].sum())) > 1e-9:
                ctx.violation("stochastic-nbr:tauleap-mass", "tau-leap diffusion step changed the total of species %s" % names[sp], tcase,
                              impl=float(last[sp].sum()), expected=float(st0[sp].sum()))
        if any(last[1, j] != st0[1, j] for j in range(n)):
            ctx.violation("stochastic-nbr:D0-moves", "tau-leap on %dx%dx%d %s: species B (D = 0) moved: %r" % (w, h, d, pkey, [float(v) for v in last[1]]),
                          tcase, impl=[float(v) for v in last[1]], expected=[float(v) for v in st0[1]])


def compare_grid(ctx, rec, res):
    """correspondence: model answers `res` (one per op of rec['ops']) vs the recorded real results"""
    if res is None or any(r is None for r in res):
        return
    w, h, d = rec["dims"]
    per, n = rec["per"], rec["n"]
    base = grid_case(w, h, d, per)
    rpos, rnb, rare, rg2g = res[0], res[1], res[2], res[3]
    # positions
    for (form, v), real, m in zip(rec["positions"], rec["real_pos"], rpos["ok"]):
        wb, e0, idx, e1, co, e2 = real
        case = dict(base, kind="position", form=form, value=list(v) if not isinstance(v, int) else v)
        if e0 is not None or bool(wb) != m["within"]:
            ctx.disagree("geom_pos", case, {"within": wb if e0 is None else e0}, m)
        elif (e1 is None) != (m["index"] is not None) or (e1 is None and int(idx) != m["index"]):
            ctx.disagree("geom_pos", case, {"index": idx if e1 is None else e1}, m)
        elif form in ("n", "npint") and ((e2 is None) != (m["coords"] is not None) or (e2 is None and list(co) != m["coords"])):
            ctx.disagree("geom_pos", case, {"coords": co if e2 is None else e2}, m)
    # neighbour relations
    mo = rnb["ok"]
    for i in range(n):
        if rec["are"][i] != mo["are"][i]:
            ctx.disagree("geom_nbrs.are", dict(base, kind="are", i=i), rec["are"][i], mo["are"][i])
        if rec["getn"][i] != mo["get"][i]:
            ctx.disagree("geom_nbrs.get", dict(base, kind="get", i=i), rec["getn"][i], mo["get"][i])
    if rec["kin"] is not None:
        visits, tot, errs = rec["kin"]
        for j in range(n):
            mk = mo["kin"][j]
            if j in errs or mk is None:
                if (j in errs) != (mk is None):
                    ctx.disagree("geom_nbrs.kin", dict(base, kind="kin", j=j), errs.get(j, "ok"), mk)
                continue
            mcount = [sum(1 for c in mk if c == k) for k in range(n)]
            if any(mcount[c] != visits[j][c] for c in range(n) if c != j) or len(mk) != tot[j]:
                ctx.disagree("geom_nbrs.kin", dict(base, kind="kin", j=j), {"visits": visits[j], "terms": tot[j]}, mk)
    if rec["eng"] is not None:
        for j in range(n):
            slots = mo["eng"][j]
            if any(rec["eng"][j][c] != sum(1 for s in slots if s == c) for c in range(n) if c != j):
                ctx.disagree("geom_nbrs.eng", dict(base, kind="engine", cell=j), rec["eng"][j], slots)
    # are_neighbors, other forms
    for (a, b, _), real, m in zip(rec["pairs"], rec["real_pairs"], rare["ok"]):
        if real != m:
            ctx.disagree("geom_are", dict(base, kind="are_forms", a=[a[0], a[1]], b=[b[0], b[1]]), real, m)
    # grid_to_graph
    if rec["graph"] is None:
        if "error" not in rg2g:
            ctx.disagree("grid_to_graph", rec["gcase"], "error", "ok")
    elif "error" in rg2g:
        ctx.disagree("grid_to_graph", rec["gcase"], "ok", rg2g)
    else:
        gr, nodes, edges = rec["graph"]
        mg = rg2g["ok"]
        ok = len(mg["nodes"]) == len(nodes) and len(mg["edges"]) == len(edges)
        if ok:
            for (v, env, _, _), mn in zip(nodes, mg["nodes"]):
                ok = ok and close(v, rparse(mn[0])) and env == mn[1]
            for e, me in zip(edges, mg["edges"]):
                ok = ok and e[0] == me[0] and e[1] == me[1] and close(e[2], rparse(me[2])) and close(e[3], rparse(me[3]))
        if not ok:
            ctx.disagree("grid_to_graph", rec["gcase"], {"nodes": nodes[:6], "edges": [e[:4] for e in edges[:10]]},
                         {"nodes": mg["nodes"][:6], "edges": mg["edges"][:10]})
        else:
            for i in range(n):
                rn = [int(x) for x in gr.get_neighbors(i)]
                if rn != mg["get_neighbors"][i]:
                    ctx.disagree("grid_to_graph.get_neighbors", dict(rec["gcase"], i=i), rn, mg["get_neighbors"][i])
                    break
                row = []
                for j in range(n):
                    e = gr.get_edge(i, j)
                    row.append(-1 if e is None else [k for k, x in enumerate(gr.edges) if x is e][0])
                if row != mg["get_edge"][i]:
                    ctx.disagree("grid_to_graph.get_edge", dict(rec["gcase"], i=i), row, mg["get_edge"][i])
                    break


# ------------------------------------------------------------------------------------------------
# grid vs graph on random systems (real code): Euler trajectories, Python rate law
# ------------------------------------------------------------------------------------------------
def random_system_desc(rng, small):
    mx = 3 if small else 4
    while True:
        w, h, d = rng.randint(1, mx), rng.randint(1, mx), rng.randint(1, 3)
        if w * h * d <= (12 if small else 40):
            break
    per = tuple(rng.random() < 0.5 for _ in range(3))
    n = w * h * d
    envs = ["a", "b"] if rng.random() < 0.7 else ["a"]
    nsp = rng.randint(1, 3)
    labels = ["A", "B", "C"][:nsp]
    species = []
    for l in labels:
        r = rng.random()
        if r < 0.4:
            D = rng.choice([0.5, 1.0, 2.0, 0.25])
        elif r < 0.85:
            D = {"a": rng.choice([0.5, 1.0, 0.0]), "b": rng.choice([0.25, 2.0, 0.0])}
            if rng.random() < 0.3:
                del D["b"]
                if rng.random() < 0.5:
                    D["default"] = 0.75
        else:
            D = 0.0
        species.append({"label": l, "D": D, "chstt": (rng.random() < 0.15)})
    reactions = []
    for _ in range(rng.randint(0, 2)):
        subs = [rng.choice(labels) for _ in range(rng.randint(0, 2))]
        prods = [rng.choice(labels) for _ in range(rng.randint(0, 2))]
        if not subs and not prods:
            continue
        reactions.append({"eq": " + ".join(subs) + " -> " + " + ".join(prods), "kf": rng.choice([0.5, 1.0, 0.125]),
                          "kr": rng.choice([0.0, 0.25])})
    a = rng.choice([Fraction(1), Fraction(1, 2), Fraction(2)])
    return {"w": w, "h": h, "d": d, "periodic": list(per), "envs": envs, "species": species, "reactions": reactions,
            "a": rstr(a), "cell_env": [rng.randrange(len(envs)) for _ in range(n)],
            "state": [float(rng.choice([0, 1, 2, 5, 0.5, 10])) for _ in range(n * nsp)],
            "units": rng.choice([None, None, ["m", "s", "mol"], ["nm", "ms", "molecule"]]),
            # the cell volume a^3 written as a number in the grid's units, or as text / UnitValue in ANOTHER space unit
            "vol_unit": rng.choice([None, None, "nm", "mm", "µm", "dm"]), "vol_form": rng.choice(["text", "uval"])}


def build_systems(desc):
    from strengths import RDNetwork, Species, Reaction, RDSystem, UnitsSystem
    from strengths.coarsegrain import grid_to_graph
    us = UnitsSystem(*desc["units"]) if desc["units"] else UnitsSystem()
    sp = [Species(s["label"], D=s["D"], chstt=s["chstt"], units_system=us) for s in desc["species"]]
    rs = [Reaction(r["eq"], kf=r["kf"], kr=r["kr"], units_system=us) for r in desc["reactions"]]
    net = RDNetwork(species=sp, reactions=rs, environments=desc["envs"], units_system=us)
    a = Fraction(desc["a"])
    cv = float(a ** 3)
    if desc.get("vol_unit"):
        # the SAME physical cell (edge a in the grid's space unit), written in another space unit
        from strengths import UnitValue
        from props.c06 import si_space
        gunit = desc["units"][0] if desc["units"] else "µm"
        cv = float(a ** 3 * (si_space(gunit) / si_space(desc["vol_unit"])) ** 3)
        cv = "%r %s3" % (cv, desc["vol_unit"]) if desc.get("vol_form") == "text" else UnitValue(cv, desc["vol_unit"] + "3")
    grid = mk_grid(desc["w"], desc["h"], desc["d"], tuple(desc["periodic"]), cell_vol=cv, cell_env=desc["cell_env"],
                   units=desc["units"])
    s_grid = RDSystem(net, grid, state=list(desc["state"]), units_system=us)
    s_graph = RDSystem(net, grid_to_graph(grid), state=list(desc["state"]), units_system=us)
    return s_grid, s_graph


def euler_traj(eng, system, steps, us):
    from strengths import RDScript, UnitsSystem
    dt = 2.0 ** -10
    scr = RDScript(system, t_sample=[0], time_step=dt, sampling_policy="on_iteration", t_max=dt * (steps - 0.5),
                   init_state_processing="none", units_system=us)
    eng.setup(scr)
    try:
        eng.iterate_n(steps)
        out = eng.get_output()
    finally:
        eng.finalize()
    return out.data.value.reshape(len(out.t.value), -1)


def eval_grid_vs_graph(eng, desc, kinetics):
    """-> (ok, detail)"""
    try:
        return _eval_grid_vs_graph(eng, desc, kinetics)
    except Exception as e:  # noqa
        return False, {"what": "raises %s: %s" % (type(e).__name__, str(e)[:200])}


def _eval_grid_vs_graph(eng, desc, kinetics):
    import numpy as np
    from strengths import UnitsSystem
    from strengths.kinetics import compute_dstatedt
    s_grid, s_graph = build_systems(desc)
    us = UnitsSystem(*desc["units"]) if desc["units"] else UnitsSystem()
    if list(s_grid.chemostats) != list(s_graph.chemostats) or not np.array_equal(s_grid.state.value, s_graph.state.value):
        return False, {"what": "default chemostats / state differ between grid and graph system"}
    if eng is not None:
        ta = euler_traj(eng, s_grid, 6, us)
        tb = euler_traj(eng, s_graph, 6, us)
        if ta.shape != tb.shape:
            return False, {"what": "trajectory shapes differ", "grid": list(ta.shape), "graph": list(tb.shape)}
        mag = float(np.max(np.abs(ta))) or 1.0
        err = float(np.max(np.abs(ta - tb)))
        if not err <= 1e-9 * mag:
            k = int(np.argmax(np.abs(ta - tb)))
            return False, {"what": "Euler trajectories differ", "max_abs_diff": err, "magnitude": mag, "flat_index": k,
                           "grid": float(ta.flat[k]), "graph": float(tb.flat[k])}
    if kinetics:
        da = compute_dstatedt(s_grid, units_system=us).value
        db = compute_dstatedt(s_graph, units_system=us).value
        mag = float(np.max(np.abs(da))) or 1.0
        # cancellation-safe magnitude: the largest single rate is bounded by max state * max coefficient; use both
        mag = max(mag, float(np.max(np.abs(s_grid.state.value))))
        err = float(np.max(np.abs(da - db)))
        if not err <= 1e-9 * mag:
            k = int(np.argmax(np.abs(da - db)))
            return False, {"what": "compute_dstatedt differs", "max_abs_diff": err, "index": k, "grid": float(da[k]), "graph": float(db[k])}
    return True, {}


def kinetics_in_scope(desc):
    """the statement's restriction for the Python kinetics functions: periodic axes of length >= 3"""
    dims = (desc["w"], desc["h"], desc["d"])
    return all((not p) or n >= 3 for p, n in zip(desc["periodic"], dims))


# ------------------------------------------------------------------------------------------------
def all_grids(maxn):
    for w, h, d in itertools.product(range(1, maxn + 1), repeat=3):
        for per in itertools.product([False, True], repeat=3):
            yield w, h, d, per


def run(ctx, maxn=None, batch=120):
    eng = common.load_engine("euler")
    maxn = maxn or ctx.n(3, 5)
    recs = []

    def flush():
        if not recs:
            return
        ops = [o for r in recs for o in r["ops"]]
        res = ctx.model.run(ops)
        k = 0
        for r in recs:
            m = len(r["ops"])
            compare_grid(ctx, r, res[k:k + m])
            k += m
        del recs[:]

    # the Python kinetics derivative costs ~6 ms per cell: observed for all 8 settings on grids up to `full` cells (quick: 8), for
    # 2 of the 8 settings (chosen per shape from the seed) up to `part` cells, for 1 beyond
    full, part = ctx.n(8, 27), ctx.n(27, 64)
    pick = {}
    engs = {"gillespie": common.load_engine("gillespie"), "tauleap": common.load_engine("tauleap")}
    for w, h, d, per in all_grids(maxn):
        n = w * h * d
        if (w, h, d) not in pick:
            check_reuse(ctx, w, h, d)
            k = 8 if n <= full else (2 if n <= part else 1)
            pick[(w, h, d)] = set(ctx.rng.sample(range(8), k))
        pidx = per[0] * 4 + per[1] * 2 + per[2]
        recs.append(check_grid(ctx, eng, w, h, d, per, do_kin=(pidx in pick[(w, h, d)])))
        if n <= 27:
            # Gillespie event tracking costs ~ cells x faces: all 8 settings on the small grids, the seed-chosen ones beyond
            check_stochastic(ctx, engs, w, h, d, per, hots=sorted({0, (w + 2 * h + 3 * d + pidx) % n}),
                             do_gillespie=(pidx in pick[(w, h, d)]))
        if len(recs) >= batch:
            flush()
    flush()

    # ---- grid vs graph on random systems
    m = ctx.n(40, 600)
    mk = ctx.n(5, 60)
    for t in range(m):
        desc = random_system_desc(ctx.rng, small=(t < mk))
        kin = t < mk and kinetics_in_scope(desc)
        ok, detail = eval_grid_vs_graph(eng, desc, kin)
        ctx.case(("gvg", t, desc["w"], desc["h"], desc["d"], tuple(desc["periodic"])), nontrivial=desc["w"] * desc["h"] * desc["d"] > 1,
                 sample={"op": "grid_vs_graph", "case": desc, "ok": ok})
        ctx.count("grid_vs_graph_euler")
        if kin:
            ctx.count("grid_vs_graph_kinetics")
        if not ok:
            ctx.violation("grid-vs-graph:%s" % detail["what"].split()[0].lower(),
                          "simulating on grid_to_graph(space) differs from simulating on the grid: %s" % detail["what"],
                          {"kind": "grid_vs_graph", "desc": desc, "kinetics": kin}, impl=detail, expected="equal to rounding")
    ctx.notes.append("proved for ALL w,h,d >= 1 and all 8 settings (no size bound): bijection, rejection iff, are_neighbors <-> face "
                     "adjacency, get_neighbors_iff, kinetics_enum_iff (no error, exactly the are_neighbors cells), engine_nbr_iff + "
                     "engine_nbr_count (slot multiplicity = faceCount: 2 self entries per periodic axis of length 1, 2 across a periodic "
                     "axis of length 2, else 1), grid_to_graph_adjacency (every edge a face pair, every face pair an edge, multiplicity "
                     "in both orientations = faceCount) and geometry; nothing of the adjacency part is left to the exhaustive check alone")
    ctx.notes.append("graph_rate_eq_grid_rate (rate law on toGraph g = rate law on g) is not a Lean theorem here: it needs the "
                     "deterministic-engine model of C01; adjacency/geometry theorems are proved, the equality itself is checked on the real code")


def search(ctx):
    """something is broken and no failing input is known yet: look further (bigger grids, more systems)"""
    eng = common.load_engine("euler")
    for w, h, d, per in all_grids(5):
        if max(w, h, d) <= ctx.n(3, 5):
            continue
        if ctx.time_left() < 15 or ctx.violations:
            break
        check_grid(ctx, eng, w, h, d, per, do_kin=(w * h * d <= 20), do_engine=(w * h * d <= 40))
    t = 0
    while ctx.time_left() > 10 and not ctx.violations and t < 300:
        desc = random_system_desc(ctx.rng, small=(t % 5 == 0))
        kin = (t % 5 == 0) and kinetics_in_scope(desc)
        ok, detail = eval_grid_vs_graph(eng, desc, kin)
        ctx.count("search_grid_vs_graph")
        if not ok:
            ctx.violation("grid-vs-graph:%s" % detail["what"].split()[0].lower(), "simulating on grid_to_graph(space) differs: %s" % detail["what"],
                          {"kind": "grid_vs_graph", "desc": desc, "kinetics": kin}, impl=detail, expected="equal to rounding")
        t += 1


class _Sink:
    """collects violations of a re-run of one grid"""

    def __init__(self, ctx):
        self.rng = ctx.rng
        self.violations = []
        self.notes = []
        self.evaluations = 0

    def case(self, *a, **k):
        pass

    def count(self, *a, **k):
        pass

    def violation(self, key, what, case, impl=None, expected=None, replay_cmd=None):
        self.violations.append({"key": key, "what": what, "case": case, "impl": impl, "expected": expected})


def replay(ctx, rec):
    """re-run the recorded case on the real code: the whole grid of the case, or the grid-vs-graph system"""
    case = rec.get("case", rec)
    if case.get("kind") == "grid_vs_graph":
        eng = common.load_engine("euler")
        ok, detail = eval_grid_vs_graph(eng, case["desc"], case.get("kinetics", False))
        return ok, {"case": case, "result": detail}
    sink = _Sink(ctx)
    sink.seed = ctx.seed
    w, h, d, per = case["w"], case["h"], case["d"], tuple(case["periodic"])
    if case.get("kind") == "reuse":
        for _ in range(3):
            check_reuse(sink, w, h, d)
    elif case.get("kind") in ("gillespie", "tauleap"):
        engs = {"gillespie": common.load_engine("gillespie"), "tauleap": common.load_engine("tauleap")}
        check_stochastic(sink, engs, w, h, d, per, hots=list(range(w * h * d)))
    else:
        eng = common.load_engine("euler")
        check_grid(sink, eng, w, h, d, per, do_kin=(w * h * d <= 30))
    key = rec.get("key")
    same = [v for v in sink.violations if key is None or v["key"] == key]
    return not same, {"case": case, "failures_on_this_grid": [{"key": v["key"], "what": v["what"], "case": v["case"]} for v in (same or sink.violations)[:5]]}
