"""C19 — Reaction equations: stoichiometry, order and rate-constant dimensions.

Theorems: lean/Strengths/Props/C19.lean (formulas regenerated from rdnetwork.py: group Network).
Correspondence: op `reaction` (equation text or dictionaries, constants in every accepted form), op `network`.
Oracle (independent of the code and of the model's algorithm): the equation is GENERATED from an abstract
term list (the AST); expected dictionaries / vectors / orders / dimensions are computed from that list, never
by parsing text.  SI meaning of units: prefix table copied from the SI brochure (as in c06).
"""
import math
from fractions import Fraction
from common import frac, rstr, rparse, close

ID = "C19"
LEAN_TARGETS = ["Strengths.Props.C19"]
PROP_FILES = ["Strengths/Props/C19.lean"]
GEN_GROUPS = ["Network", "Units"]
RULE = ("equations generated from an abstract term list: <= 4 terms per side, coefficients 0..9 (or omitted), labels drawn "
        "from 7 alphabets allowed by the label rules (letters, digits-only, symbols incl. '-' '>' ',' '_', Greek/µ, mixed), "
        "repeated species, empty sides, random blanks (' \\t\\n\\r\\x0b\\x0c') around every token; constants: bare numbers, "
        "UnitValue / text in a random unit system with the right or a perturbed dimension, per-environment dictionaries "
        "(comma keys, 'default'), arrays; all 1100 unit systems for the reaction; a case is non-trivial when the equation "
        "has at least one term; distinct by (equation text, constants, system); plus a malformed-equation stream and "
        "network descriptions with injected duplicate / undeclared labels")
ASSUMPTIONS = [
    "labels use no Unicode blank outside string.whitespace (str.split() would cut them; the label check does not refuse them) "
    "and no '->' (the label check's c.count('->') on single characters can never fire): hypotheses of parse_render / print_parse",
    "coefficient text is ASCII decimal digits (int() also accepts other Unicode digits, signs and '_' separators: modelled by pyInt, not generated)",
    "float(token) of the value token of a constant given as text is trusted (C18 owns quantity text)",
]
TRUSTED = ["Python-side SI oracle (prefix table) duplicates the Lean Spec `Strengths.C06.si*`",
           "CPython str.split / str.strip / int / str(int) are modelled explicitly and correspondence-tested"]

PREFIX = {"k": Fraction(1000), "": Fraction(1), "d": Fraction(1, 10), "c": Fraction(1, 100), "m": Fraction(1, 1000),
          "dm": Fraction(1, 10 ** 4), "cm": Fraction(1, 10 ** 5), "µ": Fraction(1, 10 ** 6), "n": Fraction(1, 10 ** 9),
          "p": Fraction(1, 10 ** 12), "f": Fraction(1, 10 ** 15)}
NA = Fraction(602214076 * 10 ** 15)
SPACE = ["km", "m", "dm", "cm", "mm", "dmm", "cmm", "µm", "nm", "pm", "fm"]
TIME = ["h", "min", "s", "ds", "cs", "ms", "µs", "ns", "ps", "fs"]
QTY = ["kmol", "mol", "dmol", "cmol", "mmol", "µmol", "nmol", "pmol", "fmol", "molecule"]
DEFAULT_SYS = ("µm", "s", "molecule")
BLANKS = " \t\n\r\x0b\x0c"                      # string.whitespace: what the label rules refuse
EQ_BLANKS = BLANKS + "\x1c\x1f\x85\xa0\u2003\u3000"   # str.isspace(): what str.split() / strip() cut

ALPHABETS = {
    "letters": "ABCDEFGHXYZabcxyz",
    "digits": "0123456789",
    "alnum": "AB12xy_",
    "symbols": "-_*#.,:;!?/()[]{}=<",
    "arrowish": "->",           # labels such as '-', '>', '>-', '--' (but never containing "->")
    "greek": "αβγδµΩé",
    "mixed": "A1-_>µ,.b",
}


def si_space(s):
    return PREFIX[s[:-1]]


def si_time(s):
    return {"h": Fraction(3600), "min": Fraction(60)}.get(s) or PREFIX[s[:-1]]


def si_qty(s):
    return Fraction(1) if s == "molecule" else PREFIX[s[:-3]] * NA


def si_factor(sys, dim):
    return si_space(sys[0]) ** dim[0] * si_time(sys[1]) ** dim[1] * si_qty(sys[2]) ** dim[2]


def sysj(s):
    return {"space": s[0], "time": s[1], "quantity": s[2]}


def rand_sys(rng):
    return (rng.choice(SPACE), rng.choice(TIME), rng.choice(QTY))


def units_text(sys, dim):
    parts = []
    for sym, e in zip(sys, dim):
        if e != 0:
            parts.append(sym if e == 1 else "%s%d" % (sym, e))
    return ".".join(parts)


def eff_sys(sys, dim):
    """system of a unit text: bases with exponent 0 are not written and fall back to the default"""
    return tuple(sys[k] if dim[k] != 0 else DEFAULT_SYS[k] for k in range(3))


# ---------------------------------------------------------------------------------------------
# the AST and its meaning (Spec)
# ---------------------------------------------------------------------------------------------
def k_dim(n):
    """amount^(1-n) x length^(3n-3) / time"""
    return (3 * n - 3, -1, 1 - n)


def sum_repeats(terms):
    """per-species coefficient, repeats summed, first-occurrence order"""
    d = {}
    for coef, label in terms:
        c = 1 if coef is None else coef
        d[label] = d.get(label, 0) + c
    return d


def rand_label(rng, alpha):
    while True:
        l = "".join(rng.choice(ALPHABETS[alpha]) for _ in range(rng.choice([1, 1, 2, 2, 3, 4])))
        if "->" not in l:
            return l


def rand_terms(rng, pool, maxterms=4):
    n = rng.choice([0, 1, 1, 2, 2, 3, 4])
    n = min(n, maxterms)
    return [(rng.choice([None, None, rng.randint(0, 9), rng.randint(1, 3)]), rng.choice(pool)) for _ in range(n)]


def blanks(rng, lo=0, hi=3):
    return "".join(rng.choice(EQ_BLANKS if rng.random() < 0.3 else BLANKS) for _ in range(rng.randint(lo, hi)))


def render_side(rng, terms, tight):
    if not terms:
        return "" if tight else blanks(rng)
    parts = []
    for coef, label in terms:
        a, b = ("", "") if tight else (blanks(rng), blanks(rng))
        if coef is None:
            parts.append(a + label + b)
        else:
            parts.append(a + str(coef) + (" " if tight else blanks(rng, 1, 3)) + label + b)
    return "+".join(parts)


def render(rng, lhs, rhs, tight=False):
    return render_side(rng, lhs, tight) + "->" + render_side(rng, rhs, tight)


# ---------------------------------------------------------------------------------------------
# rate constants: descriptions, expected outcome (Spec), model wire form, implementation object
# ---------------------------------------------------------------------------------------------
def rand_value(rng, allow_zero=True):
    if allow_zero and rng.random() < 0.2:
        return 0.0
    if rng.random() < 0.2:          # tiny but non-zero (natural with mol / m / h units): not "zero" for K
        return float(rng.randint(1, 9) * Fraction(10) ** rng.randint(-30, -9))
    return float(rng.randint(1, 99999) * Fraction(10) ** rng.randint(-6, 6))


NUM_TYPES = ["float", "float", "int", "bool", "np.int64", "np.int32", "np.float32", "np.float64", "Fraction", "arange-item"]


def rand_num(rng):
    """a bare number of one of the numeric types `numbers.Number` covers; the float it denotes is exact"""
    t = rng.choice(NUM_TYPES)
    if t == "float":
        return {"num": rand_value(rng)}
    if t == "bool":
        return {"num": float(rng.randint(0, 1)), "ntype": t}
    if t in ("int", "np.int64", "np.int32", "arange-item"):
        return {"num": float(rng.randint(0, 999)), "ntype": t}
    if t == "Fraction":
        return {"num": rng.randint(0, 4096) / 2 ** rng.randint(0, 6), "ntype": t}
    return {"num": rng.randint(0, 4096) / 8.0, "ntype": t}          # exact in float32 and float64


def typed_number(s):
    import numpy as np
    v, t = s["num"], s.get("ntype", "float")
    if t == "float":
        return float(v)
    if t == "int":
        return int(v)
    if t == "bool":
        return bool(v)
    if t == "np.int64":
        return np.int64(int(v))
    if t == "np.int32":
        return np.int32(int(v))
    if t == "np.float32":
        return np.float32(v)
    if t == "np.float64":
        return np.float64(v)
    if t == "Fraction":
        return Fraction(v)
    if t == "arange-item":
        return np.arange(int(v), int(v) + 2)[0]
    raise ValueError(t)


def rand_scalar(rng, dim, wrong=False):
    """a single-value description whose dimension is `dim` (or differs when wrong)"""
    d = dim
    if wrong:
        while d == dim:
            d = (dim[0] + rng.choice([-3, -1, 0, 1, 3]), dim[1] + rng.choice([0, 0, 1, -1]), dim[2] + rng.choice([-1, 0, 1]))
    form = rng.choice(["uval", "text"])
    sys = rand_sys(rng)
    v = rand_value(rng)
    if form == "uval":
        return {"uval": {"v": v, "sys": list(sys), "dim": list(d)}}
    return {"text": repr(v) + rng.choice([" ", "  ", "\t"]) + units_text(sys, d), "v": v, "sys": list(eff_sys(sys, d)), "dim": list(d)}


def rand_k(rng, dim, envs):
    """(description, expected_ok)"""
    r = rng.random()
    if r < 0.40:
        return rand_num(rng), True
    if r < 0.60:
        return rand_scalar(rng, dim), True
    if r < 0.72:
        return rand_scalar(rng, dim, wrong=True), False
    if r < 0.76:
        return {"array": [1.0, 2.0]}, False
    if r < 0.79:
        return {"text": "1.0 s-1 zz", "v": 1.0, "sys": None, "dim": None, "bad": True}, False
    # per-environment dictionary
    keys = list(envs) + ["default"]
    rng.shuffle(keys)
    keys = keys[:rng.randint(1, len(keys))]
    entries, ok = [], True
    if len(keys) >= 2 and rng.random() < 0.3:
        keys = [keys[0] + rng.choice([",", ", ", " ,"]) + keys[1]] + keys[2:]
    for k in keys:
        q = rng.random()
        if q < 0.5:
            entries.append([k, rand_num(rng)])
        elif q < 0.85:
            entries.append([k, rand_scalar(rng, dim)])
        else:
            entries.append([k, rand_scalar(rng, dim, wrong=True)])
            ok = False
    return {"dict": entries}, ok


def scalar_wire(s):
    if "num" in s:
        return {"num": rstr(s["num"])}
    if "uval" in s:
        u = s["uval"]
        return {"uval": {"v": rstr(u["v"]), "u": {"sys": sysj(u["sys"]), "dim": list(u["dim"])}}}
    if "text" in s:
        tok = s["text"].split()
        try:
            v = float(tok[0])
        except (ValueError, IndexError):
            return {"bad": 1}
        return {"text": {"v": rstr(v), "u": " ".join(tok[1:])}}
    raise ValueError(s)


def k_wire(k):
    if "dict" in k:
        return {"dict": [[key, scalar_wire(s)] for key, s in k["dict"]]}
    if "array" in k:
        return {"array": 1}
    return scalar_wire(k)


def impl_scalar(s):
    from strengths.units import UnitValue, Units, UnitsSystem, UnitsDimensions
    if "num" in s:
        return typed_number(s)
    if "uval" in s:
        u = s["uval"]
        return UnitValue(u["v"], Units(UnitsSystem(*u["sys"]), UnitsDimensions(*u["dim"])))
    return s["text"]


def impl_k(k):
    if "dict" in k:
        return {key: impl_scalar(s) for key, s in k["dict"]}
    if "array" in k:
        return list(k["array"])
    return impl_scalar(k)


def obs_uval(x):
    if x is None:
        return None
    return {"v": float(x.value), "sys": [x.units.sys.space, x.units.sys.time, x.units.sys.quantity],
            "dim": [x.units.dim.space, x.units.dim.time, x.units.dim.quantity]}


def obs_k(k):
    if isinstance(k, dict):
        return {"dict": [[key, obs_uval(v)] for key, v in k.items()]}
    return {"uval": obs_uval(k)}


def spec_scalar(s, sys, dim):
    """expected stored quantity for an accepted single value"""
    if "num" in s:
        return {"v": s["num"], "sys": list(sys), "dim": list(dim)}
    if "uval" in s:
        return {"v": s["uval"]["v"], "sys": list(s["uval"]["sys"]), "dim": list(s["uval"]["dim"])}
    return {"v": s["v"], "sys": list(s["sys"]), "dim": list(s["dim"])}


def spec_k(k, sys, dim):
    if "dict" in k:
        out = {}
        for key, s in k["dict"]:
            for ki in key.split(","):
                out[ki.strip()] = spec_scalar(s, sys, dim)
        return {"dict": [[a, b] for a, b in out.items()]}
    return {"uval": spec_scalar(k, sys, dim)}


def same_uval(a, b, rel=1e-12):
    if a is None or b is None:
        return a is None and b is None
    return close(a["v"], frac(b["v"]), rel=rel) and list(a["sys"]) == list(b["sys"]) and list(a["dim"]) == list(b["dim"])


def same_k(a, b, rel=1e-12):
    if ("dict" in a) != ("dict" in b):
        return False
    if "dict" in a:
        return len(a["dict"]) == len(b["dict"]) and all(x[0] == y[0] and same_uval(x[1], y[1], rel) for x, y in zip(a["dict"], b["dict"]))
    return same_uval(a["uval"], b["uval"], rel)


def same_quantity(obs, spec, bare):
    """oracle for a stored constant: a bare number must carry exactly the order's units in the reaction's system;
    a quantity given with units must keep its dimension and its SI value (the statement does not say in which
    system it is stored)"""
    if obs is None or spec is None:
        return obs is None and spec is None
    if list(obs["dim"]) != list(spec["dim"]):
        return False
    if bare:
        return list(obs["sys"]) == list(spec["sys"]) and close(obs["v"], frac(spec["v"]), rel=1e-12)
    return close(frac(obs["v"]) * si_factor(obs["sys"], obs["dim"]), frac(spec["v"]) * si_factor(spec["sys"], spec["dim"]), rel=1e-9)


def stored_ok(obs, spec, desc):
    """obs / spec in the {"uval"} | {"dict"} form; desc = the generated description (to know what was a bare number)"""
    if ("dict" in obs) != ("dict" in spec):
        return False
    if "dict" not in spec:
        return same_quantity(obs["uval"], spec["uval"], "num" in desc)
    bare = {}
    for key, sc in desc["dict"]:
        for ki in key.split(","):
            bare[ki.strip()] = "num" in sc
    if [a for a, _ in obs["dict"]] != [a for a, _ in spec["dict"]]:
        return False
    return all(same_quantity(x[1], y[1], bare[x[0]]) for x, y in zip(obs["dict"], spec["dict"]))


def model_uval(j):
    if j is None:
        return None
    s = j["u"]["sys"]
    return {"v": rparse(j["v"]), "sys": [s["space"], s["time"], s["quantity"]], "dim": list(j["u"]["dim"])}


def model_k(j):
    if "dict" in j:
        return {"dict": [[k, model_uval(v)] for k, v in j["dict"]]}
    return {"uval": model_uval(j["uval"])}


def model_K(j):
    if "dict" in j:
        return {"dict": [[k, model_uval(v)] for k, v in j["dict"]]}
    return {"uval": model_uval(j["scalar"])}


def value_in_env(kspec, env, sys, dim):
    if "dict" in kspec:
        d = dict((a, b) for a, b in kspec["dict"])
        if env in d:
            return d[env]
        if "default" in d:
            return d["default"]
        return {"v": 0.0, "sys": list(sys), "dim": list(dim)}
    return kspec["uval"]


def spec_ratio(f, r):
    """K of one environment from the SI values: None when kr = 0, else (SI ratio, dimension)"""
    if frac(r["v"]) == 0:
        return None
    si = frac(f["v"]) * si_factor(f["sys"], f["dim"]) / (frac(r["v"]) * si_factor(r["sys"], r["dim"]))
    return {"si": si, "dim": [f["dim"][k] - r["dim"][k] for k in range(3)]}


FLOAT_LO, FLOAT_HI = Fraction(10) ** -280, Fraction(10) ** 280


def ratio_in_float_range(f, r):
    """kf/kr is computed as kf.v * ((1/kr.v) * factor(kr.sys -> kf.sys, -kr.dim)): every intermediate must be a
    normal double, otherwise the comparison says nothing about the code (DESIGN §4) and the case is skipped"""
    if frac(r["v"]) == 0:
        return True
    inv = 1 / frac(r["v"])
    ndim = [-x for x in r["dim"]]
    parts = [si_space(r["sys"][0]) / si_space(f["sys"][0]), si_time(r["sys"][1]) / si_time(f["sys"][1]), si_qty(r["sys"][2]) / si_qty(f["sys"][2])]
    fac = Fraction(1)
    seq = []
    for p, e in zip(parts, ndim):
        seq.append(p ** e)
        fac *= p ** e
        seq.append(fac)
    seq += [inv * fac, frac(f["v"]) * inv * fac]
    return all(x == 0 or FLOAT_LO < abs(x) < FLOAT_HI for x in seq)


def k_matches_spec(obs, spec):
    """obs: observed UnitValue (or None); spec: output of spec_ratio"""
    if spec is None or obs is None:
        return spec is None and obs is None
    if list(obs["dim"]) != list(spec["dim"]):
        return False
    return close(obs["v"], spec["si"] / si_factor(obs["sys"], obs["dim"]), rel=1e-9)


# ---------------------------------------------------------------------------------------------
# running one case on the real code
# ---------------------------------------------------------------------------------------------
def run_impl(case):
    """build the reaction on the real code and observe everything the property names"""
    from strengths.rdnetwork import Reaction
    from strengths.units import UnitsSystem
    sys = UnitsSystem(*case["sys"])
    try:
        if "eq" in case:
            sto = case["eq"]
        else:
            sto = [dict((a, b) for a, b in case["sto"][0]), dict((a, b) for a, b in case["sto"][1])]
        r = Reaction(sto, kf=impl_k(case["kf"]), kr=impl_k(case["kr"]), units_system=sys)
    except Exception as ex:  # noqa
        return {"error": type(ex).__name__}
    return observe_all(r, case["labels"], sys)


def observe_all(r, labels, sys):
    """everything the property names, of a built reaction (`sys`: a units system object to re-parse the printed text in)"""
    from strengths.rdnetwork import Reaction
    out = observe(r, labels)
    try:
        f, b = r.split()
        out["split"] = {"fwd": observe(f, labels), "rev": observe(b, labels)}
    except Exception as ex:  # noqa
        out["split"] = {"error": type(ex).__name__}
    try:
        again = Reaction(r.to_string(), units_system=sys)
        out["reparsed"] = {"ssto": [int(x) for x in again.ssto(labels)], "psto": [int(x) for x in again.psto(labels)]}
    except Exception as ex:  # noqa
        out["reparsed"] = {"error": type(ex).__name__}
    return out


def observe(r, labels):
    d1, d2 = r.kf_units_dimensions(), r.kr_units_dimensions()
    try:
        K = r.K
        Kobs = obs_k(K) if K is not None else {"uval": None}
    except Exception as ex:  # noqa
        Kobs = {"error": type(ex).__name__}
    return {"subs": [[k, int(v)] for k, v in r.substrates.items()], "prods": [[k, int(v)] for k, v in r.products.items()],
            "ssto": [int(x) for x in r.ssto(labels)], "psto": [int(x) for x in r.psto(labels)], "dsto": [int(x) for x in r.dsto(labels)],
            "order": int(r.order()), "rorder": int(r.rorder()), "text": r.to_string(),
            "kfdim": [d1.space, d1.time, d1.quantity], "krdim": [d2.space, d2.time, d2.quantity],
            "kf": obs_k(r.kf), "kr": obs_k(r.kr), "K": Kobs,
            "sys": [r.units_system.space, r.units_system.time, r.units_system.quantity]}


def oracle(case, got):
    """the property's own predicate on the real code's result; returns [(key, what, expected)]"""
    fails = []
    exp = case["expect"]
    if not exp["ok"]:
        if "error" not in got:
            fails.append(("accepted:" + exp["why"], "%s was accepted" % exp["why"], "exception"))
        return fails
    if "error" in got:
        return [("rejected-valid", "a valid reaction raised %s" % got["error"], "a Reaction")]
    sub, prod = exp["sub"], exp["prod"]          # dicts label -> coefficient (from the AST)
    labels = case["labels"]
    sys = case["sys"]

    def nz(d):
        return dict((k, v) for k, v in d.items())
    if dict(got["subs"]) != nz(sub) or dict(got["prods"]) != nz(prod):
        fails.append(("stoichiometry", "substrates/products differ from the written coefficients (repeats summed)", {"subs": sub, "prods": prod}))
    es = [sub.get(l, 0) for l in labels]
    ep = [prod.get(l, 0) for l in labels]
    if got["ssto"] != es or got["psto"] != ep:
        fails.append(("ssto-psto", "ssto/psto are not the per-species coefficients", {"ssto": es, "psto": ep}))
    if got["dsto"] != [p - s for s, p in zip(es, ep)]:
        fails.append(("dsto", "net change is not products minus reactants", [p - s for s, p in zip(es, ep)]))
    n, m = sum(sub.values()), sum(prod.values())
    if got["order"] != n or got["rorder"] != m:
        fails.append(("order", "orders are not the coefficient sums", [n, m]))
    if tuple(got["kfdim"]) != k_dim(n) or tuple(got["krdim"]) != k_dim(m):
        fails.append(("k-dimension", "rate-constant dimension is not amount^(1-n) x length^(3n-3) / time", [k_dim(n), k_dim(m)]))
    rp = got["reparsed"]
    if "error" in rp or rp["ssto"] != es or rp["psto"] != ep:
        fails.append(("print-parse", "printing and parsing back does not give the same reaction", {"ssto": es, "psto": ep}))
    if got.get("sys") != list(sys):
        fails.append(("units-system", "the reaction's units system is not the one it was built with", list(sys)))
    skf, skr = spec_k(case["kf"], sys, k_dim(n)), spec_k(case["kr"], sys, k_dim(m))
    if not stored_ok(got["kf"], skf, case["kf"]) or not stored_ok(got["kr"], skr, case["kr"]):
        fails.append(("k-stored", "stored constants differ (bare numbers must get the order's units in the reaction's system; "
                      "quantities with units are kept)", {"kf": skf, "kr": skr}))
    sp = got["split"]
    if "error" in sp:
        fails.append(("split", "split() raised", "two reactions"))
    else:
        f, b = sp["fwd"], sp["rev"]
        zero_f = {"uval": {"v": 0.0, "sys": list(sys), "dim": list(k_dim(m))}}
        zero_b = {"uval": {"v": 0.0, "sys": list(sys), "dim": list(k_dim(n))}}
        ok = (f["ssto"] == es and f["psto"] == ep and b["ssto"] == ep and b["psto"] == es
              and stored_ok(f["kf"], skf, case["kf"]) and stored_ok(b["kf"], skr, case["kr"])
              and same_k(f["kr"], zero_f) and same_k(b["kr"], zero_b)
              and f["sys"] == list(sys) and b["sys"] == list(sys))
        if not ok:
            fails.append(("split", "split() is not the two irreversible reactions with the same constants", {"kf": skf, "kr": skr}))
    # K = kf / kr
    K = got["K"]
    if not k_in_range(skf, skr, sys, n, m):
        pass
    elif "error" in K:
        fails.append(("K", "equilibrium constant raised %s" % K["error"], "kf/kr"))
    elif "dict" not in skf and "dict" not in skr:
        if "dict" in K or not k_matches_spec(K["uval"], spec_ratio(skf["uval"], skr["uval"])):
            fails.append(("K", "equilibrium constant is not kf/kr (None when kr = 0)", None))
    else:
        keys = []
        for ks in (skf, skr):
            if "dict" in ks:
                keys += [a for a, _ in ks["dict"] if a not in keys]
        if "default" not in keys:
            keys.append("default")
        if "dict" not in K or sorted(a for a, _ in K["dict"]) != sorted(keys):
            fails.append(("K", "per-environment equilibrium constant has the wrong keys", keys))
        else:
            kd = dict((a, b) for a, b in K["dict"])
            for e in keys:
                want = spec_ratio(value_in_env(skf, e, sys, k_dim(n)), value_in_env(skr, e, sys, k_dim(m)))
                if not k_matches_spec(kd[e], want):
                    fails.append(("K", "equilibrium constant of environment %r is not kf/kr" % e, None))
                    break
    return fails


def k_in_range(skf, skr, sys, n, m):
    keys = [None]
    for ks in (skf, skr):
        if "dict" in ks:
            keys += [a for a, _ in ks["dict"]]
    keys.append("default")
    return all(ratio_in_float_range(value_in_env(skf, e, sys, k_dim(n)), value_in_env(skr, e, sys, k_dim(m))) for e in keys)


def compare_model(got, r, check_K=True):
    """canonical comparison of the implementation's observation with the model's answer"""
    if ("error" in r) != ("error" in got):
        return False
    if "error" in r:
        return True
    m = r["ok"]

    def one(g, mm, with_split):
        for k in ("subs", "prods", "ssto", "psto", "dsto", "order", "rorder", "text", "kfdim", "krdim"):
            if g[k] != mm[k]:
                return False
        if not same_k(g["kf"], model_k(mm["kf"])) or not same_k(g["kr"], model_k(mm["kr"])):
            return False
        if check_K and ("error" in g["K"] or not same_k(g["K"], model_K(mm["K"]), rel=1e-9)):
            return False
        return True
    if not one(got, m, True):
        return False
    gs, ms = got["split"], m["split"]
    if ("error" in gs) != ("error" in ms):
        return False
    if "error" not in gs:
        return one(gs["fwd"], ms["fwd"], False) and one(gs["rev"], ms["rev"], False)
    return True


def wire(case):
    op = {"op": "reaction", "sys": sysj(case["sys"]), "kf": k_wire(case["kf"]), "kr": k_wire(case["kr"]), "labels": case["labels"]}
    if "eq" in case:
        op["eq"] = case["eq"]
    else:
        op["sto"] = case["sto"]
    return op


# ---------------------------------------------------------------------------------------------
# generators
# ---------------------------------------------------------------------------------------------
def gen_case(rng, i):
    alpha = rng.choice(list(ALPHABETS))
    pool = []
    while len(pool) < rng.randint(1, 5):
        l = rand_label(rng, alpha)
        if l not in pool:
            pool.append(l)
    lhs, rhs = rand_terms(rng, pool), rand_terms(rng, pool)
    mode = i % 8
    if mode == 0:     # high orders 0..8 on each side, single species
        lhs = [(rng.randint(0, 8), pool[0])]
        rhs = [(rng.randint(0, 8), pool[-1])]
    eq = render(rng, lhs, rhs, tight=(mode == 1))
    sub, prod = sum_repeats(lhs), sum_repeats(rhs)
    n, m = sum(sub.values()), sum(prod.values())
    sys = rand_sys(rng)
    envs = ["a", "b", "cyt"][:rng.randint(1, 3)]
    for _ in range(8):   # avoid (most) constant pairs whose ratio leaves the range of a double
        kf, okf = rand_k(rng, k_dim(n), envs)
        kr, okr = rand_k(rng, k_dim(m), envs)
        if not (okf and okr) or k_in_range(spec_k(kf, sys, k_dim(n)), spec_k(kr, sys, k_dim(m)), sys, n, m):
            break
    absent = "absent"
    labels = list(pool) + [absent]
    rng.shuffle(labels)
    case = {"kind": "equation", "eq": eq, "sys": list(sys), "kf": kf, "kr": kr, "labels": labels,
            "ast": {"lhs": [[c, l] for c, l in lhs], "rhs": [[c, l] for c, l in rhs]},
            "expect": {"ok": okf and okr, "why": "a rate constant of the wrong dimension / form", "sub": sub, "prod": prod}}
    if mode == 2 and (lhs or rhs):   # the same reaction given as two dictionaries
        case.pop("eq")
        case["sto"] = [[[k, v] for k, v in sub.items()], [[k, v] for k, v in prod.items()]]
    return case, alpha, len(lhs), len(rhs), n, m


MALFORMED = [
    ("no-arrow", lambda a, b: "%s + %s" % (a, b)),
    ("two-arrows", lambda a, b: "%s -> %s -> %s" % (a, b, a)),
    ("missing-plus", lambda a, b: "2 %s %s -> %s" % (a, b, a)),
    ("empty-term", lambda a, b: "%s + + %s -> %s" % (a, b, a)),
    ("trailing-plus", lambda a, b: "%s + -> %s" % (a, b)),
    ("leading-plus", lambda a, b: "+ %s -> %s" % (a, b)),
    ("float-coef", lambda a, b: "2.5 %s -> %s" % (a, b)),
    ("word-coef", lambda a, b: "two %s -> %s" % (a, b)),
    ("coef-after", lambda a, b: "%s 2 -> %s" % (a, b)),
    ("empty-term-right", lambda a, b: "%s -> %s + " % (a, b)),
]


def run(ctx):
    rng = ctx.rng
    from strengths.rdnetwork import Reaction, Species, RDNetwork
    from strengths.units import UnitsSystem
    import strengths.value_processing as valproc

    # ---------------------------------------------------------------- 1. equations
    n_cases = ctx.n(3000, 60000)
    cases, ops = [], []
    for i in range(n_cases):
        case, alpha, nl, nr, n, m = gen_case(rng, i)
        cases.append((case, alpha, nl, nr, n, m))
        ops.append(wire(case))
    res = []
    for lo in range(0, len(ops), 4000):
        res += ctx.model.run(ops[lo:lo + 4000])
    for (case, alpha, nl, nr, n, m), r in zip(cases, res):
        got = run_impl(case)
        ctx.case(("eq", case.get("eq") or str(case.get("sto")), str(case["kf"]), str(case["kr"]), tuple(case["sys"])),
                 nontrivial=(nl + nr > 0),
                 sample={"op": "reaction", "eq": case.get("eq", case.get("sto")), "kf": case["kf"], "kr": case["kr"],
                         "impl": {k: got.get(k) for k in ("error", "subs", "prods", "order", "rorder", "kfdim", "text")}})
        ctx.count("alphabet_" + alpha)
        ctx.count("terms_%d_%d" % (nl, nr))
        ctx.count("order_f%d" % min(n, 9))
        ctx.count("order_r%d" % min(m, 9))
        ctx.count("form_" + ("dicts" if "sto" in case else "text"))
        ctx.count("expected_ok" if case["expect"]["ok"] else "expected_error")
        for k in (case["kf"], case["kr"]):
            ctx.count("k_" + ("dict" if "dict" in k else "array" if "array" in k else "num" if "num" in k else "uval" if "uval" in k else "text"))
        for key, what, expected in oracle(case, got):
            ctx.violation(key, what, case, impl=got, expected=expected)
        in_range = True
        if case["expect"]["ok"]:
            in_range = k_in_range(spec_k(case["kf"], case["sys"], k_dim(n)), spec_k(case["kr"], case["sys"], k_dim(m)), case["sys"], n, m)
            if not in_range:
                ctx.count("ambiguous_K_outside_double_range")
        if r is not None and not compare_model(got, r, check_K=in_range):
            ctx.disagree("reaction", case, got, r)

    # ---------------------------------------------------------------- 2. malformed equations must raise
    ops, meta = [], []
    for i in range(ctx.n(300, 3000)):
        name, f = MALFORMED[i % len(MALFORMED)]
        alpha = rng.choice(["letters", "greek"])     # labels that cannot be read as numbers
        a, b = rand_label(rng, alpha), rand_label(rng, alpha)
        eq = f(a, b)
        ops.append({"op": "parse_equation", "eq": eq})
        meta.append((name, eq))
    res = ctx.model.run(ops)
    for (name, eq), r in zip(meta, res):
        try:
            x = Reaction(eq)
            got = {"subs": x.substrates, "prods": x.products}
        except Exception as ex:  # noqa
            got = {"error": type(ex).__name__}
        case = {"kind": "malformed", "eq": eq, "class": name}
        ctx.case(("bad", eq), nontrivial=True)
        ctx.count("malformed_" + name)
        if "error" not in got:
            ctx.violation("malformed:" + name, "equation %r (%s) was accepted" % (eq, name), case, impl=got, expected="exception")
        if r is not None and ("error" in r) != ("error" in got):
            ctx.disagree("parse_equation", case, got, r)

    # ---------------------------------------------------------------- 3. labels
    ops, meta = [], []
    for i in range(ctx.n(400, 4000)):
        alpha = rng.choice(list(ALPHABETS))
        l = rand_label(rng, alpha)
        bad = None
        if i % 3 == 0:
            pos = rng.randint(0, len(l))
            bad = rng.choice(list(BLANKS) + ["+"])
            l = l[:pos] + bad + l[pos:]
        ops.append({"op": "label", "s": l})
        meta.append((l, bad))
    res = ctx.model.run(ops)
    for (l, bad), r in zip(meta, res):
        outs = []
        for mk in (lambda: Species(l), lambda: Reaction("A -> B", label=l), lambda: valproc.assert_string_is_a_valid_label(l)):
            try:
                mk()
                outs.append("ok")
            except Exception:  # noqa
                outs.append("error")
        case = {"kind": "label", "label": l}
        ctx.case(("label", l), nontrivial=True)
        ctx.count("label_bad" if bad else "label_ok")
        want = "error" if bad else "ok"
        if any(o != want for o in outs):
            ctx.violation("label:" + ("accepted" if bad else "rejected"), "label %r: %s, expected %s" % (l, outs, want), case, impl=outs, expected=want)
        if r is not None and (("error" in r) != (outs[2] == "error")):
            ctx.disagree("label", case, outs, r)

    # ---------------------------------------------------------------- 4. networks: duplicate / undeclared labels
    ops, meta = [], []
    for i in range(ctx.n(600, 8000)):
        alpha = rng.choice(["letters", "alnum", "greek", "mixed"])
        pool = []
        while len(pool) < rng.randint(1, 4):
            l = rand_label(rng, alpha)
            if l not in pool:
                pool.append(l)
        species = list(pool)
        reactions = []
        for j in range(rng.randint(0, 3)):
            lhs, rhs = rand_terms(rng, pool, 3), rand_terms(rng, pool, 3)
            reactions.append({"label": rng.choice([None, None, "r%d" % j]), "lhs": lhs, "rhs": rhs})
        fault = rng.choice(["none", "none", "dup-species", "dup-reaction", "undeclared-sub", "undeclared-prod", "dup-none-species"])
        if fault == "dup-species":
            species.insert(rng.randint(0, len(species)), rng.choice(pool))
        elif fault == "dup-none-species":
            species += [None, None]
        elif fault == "dup-reaction":
            lab = "same"
            reactions.append({"label": lab, "lhs": [], "rhs": []})
            reactions.insert(rng.randint(0, len(reactions) - 1), {"label": lab, "lhs": rand_terms(rng, pool, 2), "rhs": []})
        elif fault in ("undeclared-sub", "undeclared-prod"):
            side = "lhs" if fault == "undeclared-sub" else "rhs"
            other = "rhs" if side == "lhs" else "lhs"
            r0 = {"label": None, side: [(rng.choice([None, 0, 2]), "ghost")] + rand_terms(rng, pool, 2), other: rand_terms(rng, pool, 2)}
            reactions.insert(rng.randint(0, len(reactions)), r0)
        desc = {"kind": "network", "species": species, "fault": fault,
                "reactions": [{"label": r_["label"], "lhs": [[c, l] for c, l in r_["lhs"]], "rhs": [[c, l] for c, l in r_["rhs"]]} for r_ in reactions]}
        ops.append({"op": "network", "species": species, "environments": [""],
                    "reactions": [{"label": r_["label"], "subs": list(sum_repeats(r_["lhs"])), "prods": list(sum_repeats(r_["rhs"]))} for r_ in reactions]})
        meta.append(desc)
    res = ctx.model.run(ops)
    for desc, r in zip(meta, res):
        got = run_network(desc)
        ctx.case(("net", str(desc)), nontrivial=True)
        ctx.count("network_" + desc["fault"])
        invalid = net_invalid(desc)
        if invalid and "error" not in got:
            ctx.violation("network:" + invalid, "a network with %s was accepted" % invalid, desc, impl=got, expected="exception")
        if not invalid and "error" in got:
            ctx.violation("network:rejected-valid", "a valid network raised %s" % got["error"], desc, impl=got, expected="a network")
        if r is not None and ("error" in r) != ("error" in got):
            ctx.disagree("network", desc, got, r)

    # ---------------------------------------------------------------- 5. the reaction owns its units system
    seqs = [gen_alias(rng) for _ in range(ctx.n(300, 4000))]
    runs, ops = [], []
    for case in seqs:
        for what, exp, got in run_alias(case):
            runs.append((case, what, exp, got))
            ops.append(wire(exp))
    res = ctx.model.run(ops)
    for (case, what, exp, got), r in zip(runs, res):
        ctx.case(("alias", case["scenario"], exp["eq"], str(exp["kf"]), tuple(exp["sys"])), nontrivial=True)
        ctx.count("alias_" + case["scenario"])
        for key, msg, expected in oracle(exp, got):
            ctx.violation("aliasing:%s:%s" % (case["scenario"], key), "%s: %s" % (what, msg), case, impl=got, expected=expected)
        if r is not None and not compare_model(got, r, check_K=k_in_range(
                spec_k(exp["kf"], exp["sys"], k_dim(sum(exp["expect"]["sub"].values()))),
                spec_k(exp["kr"], exp["sys"], k_dim(sum(exp["expect"]["prod"].values()))), exp["sys"],
                sum(exp["expect"]["sub"].values()), sum(exp["expect"]["prod"].values()))):
            ctx.disagree("reaction-aliasing", case, got, r)

    # ---------------------------------------------------------------- 6. refused in-place edits of the units system
    for i in range(ctx.n(300, 4000)):
        case = gen_refused_edit(rng)
        fails, obs = run_refused_edit(case)
        ctx.case(("refused-edit", case["target"], case["component"], str(case["bad"]), case["via"], tuple(case["sys"])), nontrivial=True)
        ctx.count("refused_edit_" + case["target"])
        for key, what in fails:
            ctx.violation(key, "%s.units_system: %s" % (case["target"], what), case, impl=obs, expected="exception; units system and behaviour unchanged")

    ctx.notes.append("no partial theorem left: parse_render (any blanks, no hypothesis on the rendered text), print_parse (all coefficients incl. "
                     "zero first terms, every label list), split_spec (single values and per-environment dictionaries) are proved in full; "
                     "hypothesis of parse_render / print_parse: labels are words for str.split() without '+' and '->' (LabelWord)")
    ctx.notes.append("the label check admits '->' and non-ASCII blanks (\\x1c-\\x1f, \\x85, \\xa0 ...) that an equation text cannot carry; "
                     "parse_render / print_parse carry 'label is a word without \"->\"' as a hypothesis (DESIGN §6 C19)")


# ---------------------------------------------------------------------------------------------
# a reaction owns its units system: in-place edits of the caller's / the default object after construction
# ---------------------------------------------------------------------------------------------
def set_sys(us, sys):
    us.space, us.time, us.quantity = sys


def simple_case(rng, sys, pool):
    lhs, rhs = rand_terms(rng, pool, 3), rand_terms(rng, pool, 3)
    sub, prod = sum_repeats(lhs), sum_repeats(rhs)
    return {"kind": "equation", "eq": render(rng, lhs, rhs, tight=True), "sys": list(sys), "kf": rand_num(rng), "kr": rand_num(rng),
            "labels": list(pool) + ["absent"], "ast": {"lhs": [[c, l] for c, l in lhs], "rhs": [[c, l] for c, l in rhs]},
            "expect": {"ok": True, "why": "", "sub": sub, "prod": prod}}


def gen_alias(rng):
    pool = ["A", "B", "C"]
    scenario = rng.choice(["caller-edit", "default-edit", "setter-edit"])
    sys1, sys2, sys3 = rand_sys(rng), rand_sys(rng), rand_sys(rng)
    while sys2 == sys1:
        sys2 = rand_sys(rng)
    while sys3 in (sys1, sys2):
        sys3 = rand_sys(rng)
    if scenario == "default-edit":
        sys1 = DEFAULT_SYS
    c1 = simple_case(rng, sys1, pool)
    c2 = simple_case(rng, sys1 if scenario == "default-edit" else sys2, pool)
    return {"kind": "aliasing", "scenario": scenario, "sys1": list(sys1), "sys2": list(sys2), "sys3": list(sys3), "first": c1, "second": c2,
            "knew": rand_num(rng)}


def run_alias(case):
    """execute the sequence on the real code; returns [(what, expected-case, observation)] for the oracle"""
    from strengths.rdnetwork import Reaction
    from strengths.units import UnitsSystem
    sc, c1, c2 = case["scenario"], case["first"], case["second"]
    sys1, sys2, sys3 = case["sys1"], case["sys2"], case["sys3"]
    out = []
    restore = None
    try:
        if sc == "caller-edit":
            us = UnitsSystem(*sys1)
            r1 = Reaction(c1["eq"], kf=impl_k(c1["kf"]), kr=impl_k(c1["kr"]), units_system=us)
            set_sys(us, sys2)                                   # the caller re-uses its object for the next reaction
            r2 = Reaction(c2["eq"], kf=impl_k(c2["kf"]), kr=impl_k(c2["kr"]), units_system=us)
            out.append(("the first reaction after the caller's object was edited in place", c1, observe_all(r1, c1["labels"], UnitsSystem(*sys1))))
            out.append(("the second reaction, built with the edited object", c2, observe_all(r2, c2["labels"], UnitsSystem(*sys2))))
            r1.kf = typed_number(case["knew"])                  # a bare number set later is read in r1's OWN system
            c1b = dict(c1, kf=case["knew"])
            out.append(("the first reaction after kf was set again", c1b, observe_all(r1, c1["labels"], UnitsSystem(*sys1))))
        elif sc == "default-edit":
            r1 = Reaction(c1["eq"], kf=impl_k(c1["kf"]), kr=impl_k(c1["kr"]))
            restore = r1.units_system
            set_sys(r1.units_system, sys2)                      # edits r1's own system, not the default of the package
            r2 = Reaction(c2["eq"], kf=impl_k(c2["kf"]), kr=impl_k(c2["kr"]))
            out.append(("a reaction built with the default units system after another default-built reaction's system was edited",
                        c2, observe_all(r2, c2["labels"], UnitsSystem())))
        else:
            r1 = Reaction(c1["eq"], kf=impl_k(c1["kf"]), kr=impl_k(c1["kr"]), units_system=UnitsSystem(*sys1))
            us2 = UnitsSystem(*sys2)
            r1.units_system = us2
            set_sys(us2, sys3)                                  # the object handed to the setter is edited afterwards
            r1.kf = typed_number(case["knew"])
            r1.kr = impl_k(c1["kr"])
            c1b = dict(c1, kf=case["knew"], sys=list(sys2))
            out.append(("the reaction whose units_system was set from an object edited afterwards", c1b,
                        observe_all(r1, c1["labels"], UnitsSystem(*sys2))))
    except Exception as ex:  # noqa
        out.append(("the sequence", c1, {"error": type(ex).__name__}))
    finally:
        if restore is not None:
            set_sys(restore, DEFAULT_SYS)                       # (on a tree that aliases the default: put it back)
    return out


# ---------------------------------------------------------------------------------------------
# a refused in-place edit of a units system leaves the object as it was (then the normal oracles apply)
# ---------------------------------------------------------------------------------------------
BAD_COMPONENT = {"space": ["parsec", "M", "s", "", 5, None], "time": ["sec", "minute", "m", "", 3.0, None],
                 "quantity": ["molecules", "M", "g", "", 1, None]}


def gen_refused_edit(rng):
    target = rng.choice(["reaction", "reaction", "species", "network"])
    comp = rng.choice(["space", "time", "quantity"])
    sys = rand_sys(rng)
    c = simple_case(rng, sys, ["A", "B", "C"])
    c["kf"], c["kr"] = {"num": 8.0, "ntype": "int"}, {"num": 2.0, "ntype": "int"}
    return {"kind": "refused-edit", "target": target, "component": comp, "bad": rng.choice(BAD_COMPONENT[comp]),
            "via": rng.choice(["attribute", "item"]), "sys": list(sys), "reaction": c, "first_k": [rand_num(rng), rand_num(rng)]}


def run_refused_edit(case):
    """returns (failures, observations): failures = [(key, what)]"""
    from strengths.rdnetwork import Reaction, Species, RDNetwork
    from strengths.units import UnitsSystem
    sys, comp, bad = case["sys"], case["component"], case["bad"]
    c = case["reaction"]
    fails, obs = [], {}
    if case["target"] == "reaction":
        obj = Reaction(c["eq"], kf=typed_number(case["first_k"][0]), kr=typed_number(case["first_k"][1]), units_system=UnitsSystem(*sys))
    elif case["target"] == "species":
        obj = Species("A", D=1.0, density=2.0, units_system=UnitsSystem(*sys))
    else:
        obj = RDNetwork([Species("A"), Species("B"), Species("C")], [Reaction(c["eq"])], units_system=UnitsSystem(*sys))
    us = obj.units_system
    try:
        if case["via"] == "attribute":
            setattr(us, comp, bad)
        else:
            us[comp] = bad
        fails.append(("refused-edit:accepted", "units_system.%s = %r was accepted" % (comp, bad)))
    except Exception as ex:  # noqa
        obs["exc"] = type(ex).__name__
    now = [obj.units_system.space, obj.units_system.time, obj.units_system.quantity]
    obs["units_system_after"] = now
    if now != list(sys):
        fails.append(("refused-edit:stored", "the refused units_system.%s = %r is stored: the units system is now %r" % (comp, bad, now)))
    # the object must go on behaving as one in its original units system
    if case["target"] == "reaction":
        try:
            obj.set_k(8, 2)
            got = observe_all(obj, c["labels"], UnitsSystem(*sys))
        except Exception as ex:  # noqa
            got = {"error": type(ex).__name__}
        obs["after_set_k"] = {k: got.get(k) for k in ("error", "kf", "kr", "K", "sys")}
        fails += [("refused-edit:" + k, "after the refused edit and set_k(8, 2): " + w) for k, w, _ in oracle(c, got)]
    elif case["target"] == "species":
        try:
            obj.D = 3
            obj.density = 2
            got = {"D": obs_uval(obj.D), "density": obs_uval(obj.density)}
        except Exception as ex:  # noqa
            got = {"error": type(ex).__name__}
        obs["after_set"] = got
        want = {"D": {"v": 3.0, "sys": list(sys), "dim": [2, -1, 0]}, "density": {"v": 2.0, "sys": list(sys), "dim": [-3, 0, 1]}}
        if "error" in got or not same_uval(got["D"], want["D"]) or not same_uval(got["density"], want["density"]):
            fails.append(("refused-edit:species-units", "after the refused edit, bare D / density are not in the species' units system"))
    return fails, obs


def net_invalid(desc):
    """Spec: duplicate species label, duplicate reaction label, or undeclared species (independent of the code)"""
    sp = desc["species"]
    if len(set(sp)) != len(sp):
        return "a duplicate species label"
    rl = [r["label"] for r in desc["reactions"] if r["label"] is not None]
    if len(set(rl)) != len(rl):
        return "a duplicate reaction label"
    for r in desc["reactions"]:
        for c, l in r["lhs"] + r["rhs"]:
            if l not in sp:
                return "an undeclared species"
    return None


def run_network(desc):
    from strengths.rdnetwork import Reaction, Species, RDNetwork
    try:
        species = [Species(l) for l in desc["species"]]
        reactions = []
        for r in desc["reactions"]:
            sub, prod = sum_repeats([tuple(t) for t in r["lhs"]]), sum_repeats([tuple(t) for t in r["rhs"]])
            reactions.append(Reaction([sub, prod], label=r["label"]))
    except Exception as ex:  # noqa
        return {"error": "setup:" + type(ex).__name__}
    try:
        n = RDNetwork(species=species, reactions=reactions)
        return {"nspecies": n.nspecies(), "nreactions": n.nreactions()}
    except Exception as ex:  # noqa
        return {"error": type(ex).__name__}


def replay(ctx, rec):
    case = rec.get("case", rec)
    kind = case.get("kind")
    if kind == "equation":
        got = run_impl(case)
        fails = oracle(case, got)
        return (not fails), {"case": case, "impl": got, "failures": [[k, w] for k, w, _ in fails]}
    if kind == "refused-edit":
        fails, obs = run_refused_edit(case)
        return (not fails), {"case": case, "impl": obs, "failures": fails}
    if kind == "aliasing":
        fails = []
        outs = run_alias(case)
        for what, exp, got in outs:
            fails += [[what, k, w] for k, w, _ in oracle(exp, got)]
        return (not fails), {"case": case, "failures": fails,
                             "impl": [{"what": w, "kf": g.get("kf"), "kr": g.get("kr"), "sys": g.get("sys"), "error": g.get("error")} for w, _, g in outs]}
    if kind == "malformed":
        from strengths.rdnetwork import Reaction
        try:
            x = Reaction(case["eq"])
            return False, {"case": case, "impl": {"subs": x.substrates, "prods": x.products}, "expected": "exception"}
        except Exception as ex:  # noqa
            return True, {"case": case, "impl": repr(ex)}
    if kind == "label":
        from strengths.rdnetwork import Species
        bad = any(c in BLANKS or c == "+" for c in case["label"])
        try:
            Species(case["label"])
            return (not bad), {"case": case, "impl": "accepted", "expected": "error" if bad else "ok"}
        except Exception as ex:  # noqa
            return bad, {"case": case, "impl": repr(ex), "expected": "error" if bad else "ok"}
    if kind == "network":
        got = run_network(case)
        invalid = net_invalid(case)
        return (("error" in got) == bool(invalid)), {"case": case, "impl": got, "invalid_because": invalid}
    return False, {"note": "unknown case kind", "case": case}
