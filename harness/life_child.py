"""Sandboxed worker of the lifecycle checks (C08-C11): executes API-call histories on the REAL engine
(library path given by the parent, built from the working tree) and prints one line per call, flushed,
so that the parent can attribute a crash or a hang to a specific call.

usage: life_child.py jobs.json
jobs.json = {"so": path, "jobs": [ {"id":…, "engines":[option, …], "scripts":[S, …], "calls":[C, …]} ]}
  S = {"system": <rdsystem dict>, "kw": {RDScript keyword arguments}}
  C = {"obj":i,"call":"setup","script":k} | {"obj":i,"call":"iterate"|"sample"|"get_progress"|"is_complete"|
       "get_output"|"finalize"} | {"obj":i,"call":"iterate_n","n":k} | {"obj":i,"call":"run","ms":m}
     | {"obj":i,"call":"drive","max":N,"samples":[step indices after which sample() is called],"state":bool}
       (iterate() until it returns False or N calls; logs time, return value and optionally the state after each)
     | {"obj":i,"call":"new"}   (replace object i by a fresh LibRDEngine on the same library)
  optional per call: "peek": true  -> also report engineexport_get_time() (harness-only observation)
lines:  B <job> <callindex>      before a call
        R <json>                 result of that call
        J <job>                  job finished
"""
import sys, json, time, ctypes, hashlib, warnings
warnings.filterwarnings("ignore")


def main():
    spec = json.load(open(sys.argv[1]))
    import numpy as np
    import strengths as st
    from strengths.librdengine import LibRDEngine
    from strengths.units import UnitsSystem
    lib_path = spec["so"]

    def mk(option):
        return LibRDEngine(ctypes.CDLL(lib_path), option=option, requires_molecules=(option != "euler"))

    def out(tag, obj):
        sys.stdout.write(tag + " " + (json.dumps(obj) if not isinstance(obj, str) else obj) + "\n")
        sys.stdout.flush()

    def build_script(S):
        system = st.rdsystem_from_dict(S["system"])
        kw = dict(S["kw"])
        ts = kw.get("t_sample")
        if isinstance(ts, dict) and "__unitarray__" in ts:
            kw["t_sample"] = st.UnitArray(ts["__unitarray__"], ts["units"])
        return st.RDScript(system, **kw)

    def traj_json(o, full=True):
        t = np.ascontiguousarray(np.asarray(o.t.value, dtype=float))
        d = np.ascontiguousarray(np.asarray(o.data.value, dtype=float))
        h = hashlib.sha1(t.tobytes() + b"|" + d.tobytes()).hexdigest()
        r = {"nt": int(t.size), "nd": int(d.size), "hash": h, "nsamples": int(o.nsamples()), "nspecies": int(o.nspecies()),
             "ncells": int(o.ncells()), "seed": o.script.rng_seed if o.script is not None else None}
        if full:
            r["t"] = [float(v) for v in t]
            r["data"] = [float(v) for v in d]
        return r

    for job in spec["jobs"]:
        engines = [mk(opt) for opt in job["engines"]]
        scripts = {}
        live = False
        last_out = None
        for ci, c in enumerate(job["calls"]):
            out("B", "%s %d" % (job["id"], ci))
            e = engines[c["obj"]]
            lib = e._lib
            lib.engineexport_get_time.restype = ctypes.c_double
            t0 = time.time()
            res = {"job": job["id"], "i": ci}
            try:
                k = c["call"]
                if k == "setup":
                    si = c["script"]
                    if si not in scripts:
                        scripts[si] = build_script(job["scripts"][si])
                    sc = scripts[si]
                    meta = {"seed": sc.rng_seed}
                    try:
                        us = sc.units_system.copy()
                        if e._requires_molecules:
                            us.quantity = "molecule"
                        meta.update(ns=len(sc.system.network.species), n=int(sc.system.space.size()),
                                    size=int(sc.system.state_size()),
                                    tsamples=[float(v) for v in sc.t_sample.convert(us).value],
                                    interval=float(sc.sampling_interval.convert(us).value),
                                    dt=float(sc.time_step.convert(us).value),
                                    x0=[float(v) for v in sc.system.state.convert(us).value],
                                    x0_out=[float(v) for v in sc.system.state.convert(sc.units_system).value],
                                    tfactor=float(st.UnitValue(1, st.Units(us, st.time_units_dimensions())).convert(sc.units_system).value),
                                    qfactor=float(st.UnitValue(1, st.Units(us, st.quantity_units_dimensions())).convert(sc.units_system).value))
                        meta["tmax"] = float(sc.t_max.convert(us).value)
                    except Exception as ex:  # noqa
                        meta["meta_error"] = type(ex).__name__
                    res["meta"] = meta
                    e.setup(sc)
                    live = True
                    res["ret"] = None
                elif k == "iterate":
                    res["ret"] = bool(e.iterate())
                elif k == "iterate_n":
                    res["ret"] = bool(e.iterate_n(c["n"]))
                elif k == "run":
                    res["ret"] = bool(e.run(c["ms"]))
                elif k == "sample":
                    e.sample()
                    res["ret"] = None
                elif k == "get_progress":
                    res["ret"] = float(e.get_progress())
                elif k == "is_complete":
                    res["ret"] = bool(e.is_complete())
                elif k == "get_output":
                    last_out = e.get_output()
                    res["ret"] = traj_json(last_out, full=c.get("full", True))
                elif k == "finalize":
                    live = False
                    e.finalize()
                    res["ret"] = None
                elif k == "new":
                    engines[c["obj"]] = mk(job["engines"][c["obj"]])
                    res["ret"] = None
                elif k == "schedule":
                    # a driving schedule: [["iterate"], ["iterate_n", k], ["run", ms], ...]; stops at completion; when the
                    # list is exhausted the last entry is repeated until completion (bounded by "max")
                    log = []
                    steps = list(c["steps"]) or [["run", 1]]
                    i = 0
                    done = False
                    while not done and len(log) < c.get("max", 100000):
                        st_ = steps[min(i, len(steps) - 1)]
                        i += 1
                        if st_[0] == "iterate":
                            u = e.iterate()
                        elif st_[0] == "iterate_n":
                            u = e.iterate_n(st_[1])
                        else:
                            u = e.run(st_[1])
                        log.append([bool(u), float(lib.engineexport_get_time())])
                        done = not u
                    res["ret"] = {"log": log[-50:], "ncalls": len(log), "complete": done}
                elif k in ("simulate", "resim"):
                    # the package's own driver (simulate_script: run(1000) slices, get_output, finalize)
                    from strengths.simulate import simulate_script
                    if k == "simulate":
                        si = c["script"]
                        if si not in scripts:
                            scripts[si] = build_script(job["scripts"][si])
                        src = scripts[si]
                    else:
                        src = last_out.script
                    last_out = simulate_script(src, e)
                    live = False
                    res["ret"] = traj_json(last_out, full=c.get("full", False))
                elif k == "drive":
                    T, U, X, C = [], [], [], []
                    samples = set(c.get("samples", []))
                    want_state = c.get("state", False)
                    size = c.get("size", 0)
                    buf = (ctypes.c_double * max(size, 1))()
                    n = 0
                    while n < c["max"]:
                        u = bool(e.iterate())
                        n += 1
                        U.append(u)
                        C.append(bool(e.is_complete()))
                        T.append(float(lib.engineexport_get_time()))
                        if want_state:
                            lib.engineexport_get_state(buf)
                            X.append([float(buf[i]) for i in range(size)])
                        if n in samples:
                            e.sample()
                        if not u and not c.get("past_end", 0):
                            break
                        if not u:
                            c["past_end"] -= 1
                    res["ret"] = {"T": T, "U": U, "X": X, "C": C, "progress": float(e.get_progress())}
                else:
                    raise RuntimeError("unknown call " + k)
                if c.get("peek"):
                    res["T"] = float(lib.engineexport_get_time())
                if c.get("peek_state"):
                    size = c["peek_state"]
                    buf = (ctypes.c_double * max(size, 1))()
                    lib.engineexport_get_state(buf)
                    res["X"] = [float(buf[i]) for i in range(size)]
            except Exception as ex:  # noqa  (Python-level exception: "raised")
                res["raised"] = type(ex).__name__ + ": " + str(ex)[:200]
            res["wall"] = round(time.time() - t0, 4)
            out("R", res)
        # leave the library clean for the next job of this child
        if live:
            engines[0]._lib.engineexport_finalize()
        out("J", str(job["id"]))


if __name__ == "__main__":
    main()
