"""Sandboxed worker of the lifecycle checks (C08-C11): executes API-call histories on the REAL engine
(library path given by the parent, built from the working tree) and prints one line per call, flushed,
so that the parent can attribute a crash or a hang to a specific call.

usage: life_child.py jobs.json
jobs.json = {"so": path, "jobs": [ {"id":…, "engines":[option, …], "scripts":[S, …], "calls":[C, …]} ]}
  option = "euler" | "tauleap" | "gillespie" (stock configuration: requires_molecules = option != "euler"), or
           "<option>:mol" / "<option>:nomol" (LibRDEngine built with requires_molecules True / False)
  S = {"system": <rdsystem dict>, "kw": {RDScript keyword arguments}}
      kw["__seed_as__"] = "str" | "np_int64" | "array0" | "float": the TYPE in which rng_seed is handed to RDScript
      kw["__from_dict__"] = true: the script is built by rdscript_from_dict from a dictionary (seed under the key "seed")
      kw["__tsample_first__"] = [..]: the script is constructed with THIS request list, then `script.t_sample = <kw t_sample>`
      S["system_ops"] = [{"op":"chem_file","layout":"rows"|"lines"|"one_line","newline":bool}   (chemostat map loaded from a text file)
                         | {"op":"refuse_space"}]  (system.space = <space naming an undefined environment> must raise; caught)
      S["edits"] = [{"op":"refuse","attr":a,"value":v}]   (script.a = v must raise; caught; the script must be as before)
      what happened is reported by setup / simulate as "edits": [{"op":…, "raised": "<exception>" | null}]
  C = {"obj":i,"call":"setup","script":k} | {"obj":i,"call":"iterate"|"sample"|"get_progress"|"is_complete"|
       "get_output"|"finalize"} | {"obj":i,"call":"iterate_n","n":k} | {"obj":i,"call":"run","ms":m}
     | {"obj":i,"call":"drive","max":N,"samples":[step indices after which sample() is called],"state":bool}
       (iterate() until it returns False or N calls; logs time, return value and optionally the state after each)
     | {"obj":i,"call":"new"}   (replace object i by a fresh LibRDEngine on the same library)
     | {"obj":i,"call":"poll","how":"is_complete"|"iterate_n0","step":["iterate"]|["iterate_n",k]|["run",ms],"max":N}
       (`while not e.is_complete(): step` / `while e.iterate_n(0): step` — the loop is driven by the polled status only)
     | {"obj":i,"call":"edit_script","script":k,"set":{"rng_seed":v,"time_step_factor":f}}
       (the CALLER edits its RDScript object k after a run; reports the seed stored in the last trajectory's script)
     | {"obj":i,"call":"simulate_long","script":k,"wall":seconds}
       (calibrates the step rate, then runs simulate_script on a copy of script k whose t_max needs about `wall` seconds)
     | {"obj":i,"call":"temp"}   (a throw-away engine object on the same library is created, dropped and garbage-collected)
     | {"obj":i,"call":"drop"}   (engine object i loses its last reference and is garbage-collected; "new" re-creates it)
     | {"obj":i,"call":"roundtrip","script":k,"to":m,"route":"dict"|"file"|"traj_dict"|"traj_file"}
       (script m := script k — or the script stored in the last trajectory — after rdscript_to_dict/from_dict or save/load)
     | {"obj":i,"call":"mutate_out","what":"script_units"|"script_system"|"script_tsample"|"system_state"}
       (the CALLER modifies the object returned by the last get_output / simulate in place: its .script or its .system)
     drive: "via":"iterate_n" drives by iterate_n(1) instead of iterate()
  get_output / simulate report "snap": a deep snapshot (fingerprints of .script, of .system, units of data and times) taken at once
  scripts built without a seed (rng_seed None): the harness never reads rng_seed before setup / simulate_script
  setup / simulate also report "script_changed": the fields of the caller's RDScript that differ after the call
  setup / simulate also report "init": what was handed to engineexport_initialize_{grid,graph} (observed by wrapping the
  library call: the counts, the length of every buffer against the count passed alongside, and the native return code)
  optional per call: "peek": true  -> also report engineexport_get_time() (harness-only observation)
lines:  B <job> <callindex>      before a call
        R <json>                 result of that call
        J <job>                  job finished
"""
import sys, json, time, ctypes, hashlib, warnings
warnings.filterwarnings("ignore")


def main():
    spec = json.load(open(sys.argv[1]))
    import numpy as np
    import strengths as st
    from strengths.librdengine import LibRDEngine
    from strengths.units import UnitsSystem
    lib_path = spec["so"]

    GRID_ARGS = ["w", "h", "d", "n_species", "n_reactions", "n_env", "cell_state", "cell_chstt", "cell_env", "cell_vol", "k", "sub", "sto", "D",
                 "bc_x", "bc_y", "bc_z", "n_sample", "t_sample"]
    GRAPH_ARGS = ["n_nodes", "n_species", "n_reactions", "n_env", "n_edges", "edge_i", "edge_j", "edge_sfc", "edge_dst", "cell_state", "cell_chstt",
                  "cell_env", "cell_vol", "k", "sub", "sto", "D", "n_sample", "t_sample"]

    class LibProxy(object):
        """the native library with the two initialisation entry points wrapped: records what the marshalling code hands over"""
        def __init__(self, lib):
            object.__setattr__(self, "_real", lib)
            object.__setattr__(self, "last_init", None)

        def __getattr__(self, name):
            real = getattr(object.__getattribute__(self, "_real"), name)
            if name not in ("engineexport_initialize_grid", "engineexport_initialize_graph"):
                return real
            proxy = self

            def call(*args):
                names = GRID_ARGS if name.endswith("grid") else GRAPH_ARGS
                a = dict(zip(names, args))
                rec = {"fn": name, "nargs": len(args), "bad": []}
                try:
                    cnt = {k: int(v.value) for k, v in a.items() if isinstance(v, ctypes.c_int)}
                    n = cnt["w"] * cnt["h"] * cnt["d"] if "w" in cnt else cnt["n_nodes"]
                    want = {"cell_state": n * cnt["n_species"], "cell_chstt": n * cnt["n_species"], "cell_env": n,
                            "k": cnt["n_env"] * cnt["n_reactions"], "sub": cnt["n_species"] * cnt["n_reactions"],
                            "sto": cnt["n_species"] * cnt["n_reactions"], "D": cnt["n_species"] * cnt["n_env"], "t_sample": cnt["n_sample"]}
                    if "n_edges" in cnt:
                        want.update(edge_i=cnt["n_edges"], edge_j=cnt["n_edges"], edge_sfc=cnt["n_edges"], edge_dst=cnt["n_edges"], cell_vol=n)
                    rec["counts"] = cnt
                    for k, w in want.items():
                        got = len(a[k]) if hasattr(a[k], "__len__") else None
                        if got != w:
                            rec["bad"].append({"arg": k, "buffer_length": got, "count_passed": w})
                    # indices the engine uses as subscripts
                    rec["bad_values"] = []
                    envs = [int(v) for v in a["cell_env"]]
                    if any(v < 0 or v >= cnt["n_env"] for v in envs):
                        rec["bad_values"].append({"arg": "cell_env", "value": [v for v in envs if v < 0 or v >= cnt["n_env"]][0], "limit": cnt["n_env"]})
                    if "n_edges" in cnt:
                        for nm in ("edge_i", "edge_j"):
                            vs = [int(v) for v in a[nm]]
                            if any(v < 0 or v >= n for v in vs):
                                rec["bad_values"].append({"arg": nm, "value": [v for v in vs if v < 0 or v >= n][0], "limit": n})
                except Exception as ex:  # noqa
                    rec["inspect_error"] = type(ex).__name__ + ": " + str(ex)[:100]
                rc = real(*args)
                rec["rc"] = int(rc)
                object.__setattr__(proxy, "last_init", rec)
                return rc
            return call

        def __setattr__(self, name, value):
            setattr(object.__getattribute__(self, "_real"), name, value)

    def mk(spec):
        option, _, flag = spec.partition(":")
        req = (option != "euler") if not flag else (flag == "mol")
        return LibRDEngine(LibProxy(ctypes.CDLL(lib_path)), option=option, requires_molecules=req)

    def take_init(e, res):
        try:
            rec = e._lib.last_init
            object.__setattr__(e._lib, "last_init", None)
            if rec is not None:
                res["init"] = rec
        except Exception:  # noqa
            pass

    def out(tag, obj):
        sys.stdout.write(tag + " " + (json.dumps(obj) if not isinstance(obj, str) else obj) + "\n")
        sys.stdout.flush()

    def typed_seed(v, how):
        if v is None or not how:
            return v
        if how == "str":
            return str(int(v))
        if how == "np_int64":
            return np.int64(v)
        if how == "array0":
            return np.array(int(v))
        if how == "float":
            return float(v)
        return v

    def build_script(S):
        sc = build_script0(S)
        try:
            sc._verif_noseed = ("rng_seed" not in S["kw"]) or S["kw"]["rng_seed"] is None
        except Exception:  # noqa
            pass
        return sc

    def build_system(S, log):
        import copy, tempfile, shutil
        sysd = S["system"]
        ops = S.get("system_ops", [])
        system = st.rdsystem_from_dict(sysd)
        for op in ops:
            if op["op"] == "chem_file":
                # the same system, its chemostat map read from a TEXT file with the values over several lines
                ch = [int(v) for v in system.chemostats]
                ns = len(system.network.species)
                nc = max(len(ch) // max(ns, 1), 1)
                if op.get("layout") == "rows":
                    lines = [" ".join(str(v) for v in ch[i * nc:(i + 1) * nc]) for i in range(ns)]
                elif op.get("layout") == "lines":
                    lines = [str(v) for v in ch]
                else:
                    lines = [", ".join(str(v) for v in ch)]
                d = tempfile.mkdtemp(prefix="life_sys_")
                try:
                    with open(d + "/chemostats.txt", "w", newline="") as f:
                        f.write(("\r\n" if op.get("crlf") else "\n").join(lines) + ("\n" if op.get("newline", True) else ""))
                    dd = copy.deepcopy(sysd)
                    dd["chemostats"] = "chemostats.txt"
                    system = st.rdsystem_from_dict(dd, base_path=d)
                finally:
                    shutil.rmtree(d, ignore_errors=True)
                log.append({"op": "chem_file", "raised": None, "expected_len": len(ch), "len": len(system.chemostats)})
            elif op["op"] == "refuse_space":
                from strengths.rdspace import rdspace_from_dict
                bad = copy.deepcopy(sysd["space"])
                nenv = len(sysd["network"].get("environments", ["default"]))
                if bad["type"] == "grid":
                    bad["cell_env"] = list(bad["cell_env"])
                    bad["cell_env"][-1] = nenv + op.get("beyond", 0)
                else:
                    bad["nodes"][-1]["environment"] = nenv + op.get("beyond", 0)
                rec = {"op": "refuse_space", "raised": None}
                try:
                    system.space = rdspace_from_dict(bad)
                except Exception as ex:  # noqa
                    rec["raised"] = type(ex).__name__
                log.append(rec)
        return system

    def apply_edits(sc, S, log):
        for ed in S.get("edits", []):
            if ed["op"] == "refuse":
                rec = {"op": "refuse", "attr": ed["attr"], "value": ed["value"], "raised": None}
                v = ed["value"]
                if isinstance(v, dict) and "__unitarray__" in v:
                    v = st.UnitArray(v["__unitarray__"], v["units"])
                try:
                    setattr(sc, ed["attr"], v)
                except Exception as ex:  # noqa
                    rec["raised"] = type(ex).__name__
                log.append(rec)

    def build_script0(S):
        log = []
        sc = build_script1(S, log)
        apply_edits(sc, S, log)
        try:
            sc._verif_edits = log
        except Exception:  # noqa
            pass
        return sc

    def build_script1(S, log):
        kw = dict(S["kw"])
        seed_as = kw.pop("__seed_as__", None)
        from_dict = kw.pop("__from_dict__", False)
        ts_first = kw.pop("__tsample_first__", None)
        if S.get("system_ops") or ts_first is not None:
            from_dict = False
        if "rng_seed" in kw:
            kw["rng_seed"] = typed_seed(kw["rng_seed"], seed_as)
        if from_dict and "units_system" not in kw and not isinstance(kw.get("t_sample"), dict):
            from strengths.rdscript import rdscript_from_dict
            d = {"system": S["system"]}
            for k, v in kw.items():
                d["seed" if k == "rng_seed" else k] = v
            return rdscript_from_dict(d)
        system = build_system(S, log)
        ts = kw.get("t_sample")
        if isinstance(ts, dict) and "__unitarray__" in ts:
            form = ts.get("form", "unitarray")
            if form == "dict":
                from strengths.units import unitarray_from_dict
                kw["t_sample"] = unitarray_from_dict({"value": ts["__unitarray__"], "units": ts["units"]})
            elif form == "strings":
                kw["t_sample"] = ["%r %s" % (v, ts["units"]) for v in ts["__unitarray__"]]
            else:
                kw["t_sample"] = st.UnitArray(ts["__unitarray__"], ts["units"])
        if ts_first is not None:
            # constructor with another request list, then the assignment (t_max left at its default follows the new list)
            real = kw["t_sample"]
            kw["t_sample"] = ts_first
            sc = st.RDScript(system, **kw)
            sc.t_sample = real
            log.append({"op": "t_sample_after_construction", "raised": None})
            return sc
        return st.RDScript(system, **kw)

    def script_fp(sc):
        """what the caller can see of its script object (a call on an engine must not change any of it)"""
        fp = {}
        noseed = getattr(sc, "_verif_noseed", False)
        for name, f in (("units_system", lambda: [sc.units_system.space, sc.units_system.time, sc.units_system.quantity]),
                        ("rng_seed", lambda: sc.rng_seed),
                        ("t_sample", lambda: [[float(v) for v in sc.t_sample.value], str(sc.t_sample.units)]),
                        ("time_step", lambda: str(sc.time_step)), ("t_max", lambda: str(sc._t_max)),
                        ("sampling_policy", lambda: sc.sampling_policy), ("sampling_interval", lambda: str(sc.sampling_interval)),
                        ("init_state_processing", lambda: sc.init_state_processing),
                        ("state", lambda: hashlib.sha1(np.ascontiguousarray(np.asarray(sc.system.state.value, dtype=float)).tobytes()).hexdigest()
                                          + str(sc.system.state.units))):
            if name == "rng_seed" and noseed:
                continue          # a seed that was never given must not be read by the harness before the run
            try:
                fp[name] = f()
            except Exception as ex:  # noqa
                fp[name] = "error:" + type(ex).__name__
        return fp

    def fp_diff(a, b):
        return [{"field": k, "before": a[k], "after": b[k]} for k in a if a[k] != b[k]]

    def traj_json(o, full=True):
        t = np.ascontiguousarray(np.asarray(o.t.value, dtype=float))
        d = np.ascontiguousarray(np.asarray(o.data.value, dtype=float))
        h = hashlib.sha1(t.tobytes() + b"|" + d.tobytes()).hexdigest()
        r = {"nt": int(t.size), "nd": int(d.size), "hash": h, "nsamples": int(o.nsamples()), "nspecies": int(o.nspecies()),
             "ncells": int(o.ncells()), "seed": o.script.rng_seed if o.script is not None else None}
        try:
            snap = {"data_units": str(o.data.units), "t_units": str(o.t.units),
                    "system_state": hashlib.sha1(np.ascontiguousarray(np.asarray(o.system.state.value, dtype=float)).tobytes()).hexdigest() + str(o.system.state.units),
                    "system_size": [int(o.system.space.size()), len(o.system.network.species)],
                    "script": script_fp(o.script) if o.script is not None else None,
                    "script_system_size": [int(o.script.system.space.size()), len(o.script.system.network.species)] if o.script is not None else None}
            r["snap"] = snap
        except Exception as ex:  # noqa
            r["snap"] = {"error": type(ex).__name__}
        if full:
            r["t"] = [float(v) for v in t]
            r["data"] = [float(v) for v in d]
        return r

    for job in spec["jobs"]:
        engines = [mk(opt) for opt in job["engines"]]
        scripts = {}
        live = False
        last_out = None
        for ci, c in enumerate(job["calls"]):
            out("B", "%s %d" % (job["id"], ci))
            t0 = time.time()
            res = {"job": job["id"], "i": ci}
            if c["call"] in ("temp", "drop"):
                import gc
                try:
                    if c["call"] == "temp":
                        tmp = mk(job["engines"][c["obj"]])
                        del tmp
                    else:
                        engines[c["obj"]] = None
                    gc.collect()
                    res["ret"] = None
                except Exception as ex:  # noqa
                    res["raised"] = type(ex).__name__ + ": " + str(ex)[:200]
                res["wall"] = round(time.time() - t0, 4)
                out("R", res)
                continue
            e = engines[c["obj"]]
            if e is None:
                e = engines[c["obj"]] = mk(job["engines"][c["obj"]])
            lib = e._lib
            lib.engineexport_get_time.restype = ctypes.c_double
            try:
                k = c["call"]
                if k == "roundtrip":
                    import tempfile, shutil
                    from strengths.rdscript import rdscript_to_dict, rdscript_from_dict, save_rdscript, load_rdscript
                    route = c.get("route", "dict")
                    src = last_out.script if route.startswith("traj") else scripts[c["script"]]
                    if route in ("dict", "traj_dict"):
                        new = rdscript_from_dict(json.loads(json.dumps(rdscript_to_dict(src))))
                    else:
                        d = tempfile.mkdtemp(prefix="life_rt_")
                        try:
                            pth = d + "/script.json"
                            save_rdscript(src, pth)
                            new = load_rdscript(pth)
                        finally:
                            shutil.rmtree(d, ignore_errors=True)
                    scripts[c["to"]] = new
                    res["ret"] = {"time_step": str(new.time_step), "t_max": str(new._t_max), "sampling_interval": str(new.sampling_interval),
                                  "seed": new.rng_seed, "src_time_step": str(src.time_step), "src_t_max": str(src._t_max),
                                  "src_sampling_interval": str(src.sampling_interval)}
                elif k == "setup":
                    si = c["script"]
                    if si not in scripts:
                        scripts[si] = build_script(job["scripts"][si])
                    sc = scripts[si]
                    meta = {"seed": (None if getattr(sc, "_verif_noseed", False) else sc.rng_seed)}
                    try:
                        us = sc.units_system.copy()
                        if e._requires_molecules:
                            us.quantity = "molecule"
                        meta.update(ns=len(sc.system.network.species), n=int(sc.system.space.size()),
                                    size=int(sc.system.state_size()),
                                    tsamples=[float(v) for v in sc.t_sample.convert(us).value],
                                    interval=float(sc.sampling_interval.convert(us).value),
                                    dt=float(sc.time_step.convert(us).value),
                                    x0=[float(v) for v in sc.system.state.convert(us).value],
                                    x0_out=[float(v) for v in sc.system.state.convert(sc.units_system).value],
                                    tfactor=float(st.UnitValue(1, st.Units(us, st.time_units_dimensions())).convert(sc.units_system).value),
                                    qfactor=float(st.UnitValue(1, st.Units(us, st.quantity_units_dimensions())).convert(sc.units_system).value))
                        meta["tmax"] = float(sc.t_max.convert(us).value)
                    except Exception as ex:  # noqa
                        meta["meta_error"] = type(ex).__name__
                    res["meta"] = meta
                    res["edits"] = getattr(sc, "_verif_edits", [])
                    fp0 = script_fp(sc)
                    try:
                        e.setup(sc)
                    finally:
                        take_init(e, res)
                    live = True
                    res["ret"] = None
                    res["script_changed"] = fp_diff(fp0, script_fp(sc))
                elif k == "iterate":
                    res["ret"] = bool(e.iterate())
                elif k == "iterate_n":
                    res["ret"] = bool(e.iterate_n(c["n"]))
                elif k == "run":
                    res["ret"] = bool(e.run(c["ms"]))
                elif k == "sample":
                    e.sample()
                    res["ret"] = None
                elif k == "get_progress":
                    res["ret"] = float(e.get_progress())
                elif k == "is_complete":
                    res["ret"] = bool(e.is_complete())
                elif k == "get_output":
                    last_out = e.get_output()
                    res["ret"] = traj_json(last_out, full=c.get("full", True))
                elif k == "finalize":
                    live = False
                    e.finalize()
                    res["ret"] = None
                elif k == "new":
                    engines[c["obj"]] = mk(job["engines"][c["obj"]])
                    res["ret"] = None
                elif k == "schedule":
                    # a driving schedule: [["iterate"], ["iterate_n", k], ["run", ms], ...]; stops at completion; when the
                    # list is exhausted the last entry is repeated until completion (bounded by "max")
                    log = []
                    steps = list(c["steps"]) or [["run", 1]]
                    i = 0
                    done = False
                    while not done and len(log) < c.get("max", 100000):
                        st_ = steps[min(i, len(steps) - 1)]
                        i += 1
                        if st_[0] == "iterate":
                            u = e.iterate()
                        elif st_[0] == "iterate_n":
                            u = e.iterate_n(st_[1])
                        else:
                            u = e.run(st_[1])
                        log.append([bool(u), float(lib.engineexport_get_time())])
                        done = not u
                    res["ret"] = {"log": log[-50:], "ncalls": len(log), "complete": done}
                elif k == "simulate_cg":
                    # the package's driver with a coarse-graining index map (refused maps raise: reported as "raised")
                    from strengths.simulate import simulate_script
                    si = c["script"]
                    if si not in scripts:
                        scripts[si] = build_script(job["scripts"][si])
                    try:
                        last_out = simulate_script(scripts[si], e, cgmap=[int(v) for v in c["cgmap"]])
                    finally:
                        take_init(e, res)
                    live = False
                    res["ret"] = traj_json(last_out, full=False)
                elif k in ("simulate", "resim"):
                    # the package's own driver (simulate_script: run(1000) slices, get_output, finalize)
                    from strengths.simulate import simulate_script
                    if k == "simulate":
                        si = c["script"]
                        if si not in scripts:
                            scripts[si] = build_script(job["scripts"][si])
                        src = scripts[si]
                    else:
                        src = last_out.script
                    res["edits"] = getattr(src, "_verif_edits", [])
                    fp0 = script_fp(src)
                    try:
                        last_out = simulate_script(src, e)
                    finally:
                        take_init(e, res)
                    live = False
                    res["ret"] = traj_json(last_out, full=c.get("full", False))
                    res["script_changed"] = fp_diff(fp0, script_fp(src))
                elif k == "poll":
                    how = c.get("how", "is_complete")
                    st_ = c.get("step", ["iterate"])
                    n = 0
                    while n < c.get("max", 100000):
                        go = (not e.is_complete()) if how == "is_complete" else bool(e.iterate_n(0))
                        if not go:
                            break
                        if st_[0] == "iterate":
                            e.iterate()
                        elif st_[0] == "iterate_n":
                            e.iterate_n(st_[1])
                        else:
                            e.run(st_[1])
                        n += 1
                    res["ret"] = {"ncalls": n, "T": float(lib.engineexport_get_time())}
                elif k == "mutate_out":
                    what = c.get("what", "script_units")
                    o = last_out
                    if what == "script_units":
                        o.script.units_system = UnitsSystem(space="mm", time="h", quantity="mol")
                    elif what == "script_tsample":
                        o.script.t_sample = [0.0]
                    elif what == "script_system":
                        small = st.rdsystem_from_dict({"network": {"species": [{"label": "Z", "density": 1}]},
                                                       "space": {"type": "grid", "w": 1, "h": 1, "d": 1}})
                        o.script.system = small
                    elif what == "system_state":
                        v = np.asarray(o.system.state.value, dtype=float)
                        o.system.state = st.UnitArray(v * 0.0 + 7.0 + np.arange(v.size), o.system.state.units)
                    res["ret"] = None
                elif k == "edit_script":
                    sc = scripts[c["script"]]
                    before = sc.rng_seed
                    for key, v in c.get("set", {}).items():
                        if key == "time_step_factor":
                            sc.time_step = st.UnitValue(float(sc.time_step.value) * v, sc.time_step.units)
                        else:
                            setattr(sc, key, v)
                    res["ret"] = {"seed_before": before, "seed_after": sc.rng_seed,
                                  "stored_seed": (last_out.script.rng_seed if last_out is not None and last_out.script is not None else None)}
                elif k == "simulate_long":
                    from strengths.simulate import simulate_script
                    sc = build_script(job["scripts"][c["script"]])
                    dt = float(sc.time_step.value)
                    e.setup(sc)
                    tw = time.time()
                    e.run(150)
                    el = max(time.time() - tw, 1e-3)
                    steps = float(lib.engineexport_get_time()) / dt
                    e.finalize()
                    nsteps = max(int(steps / el * c.get("wall", 1.8)), 10)
                    tmax = nsteps * dt
                    sc.t_sample = [0.0, tmax / 2, tmax]
                    sc.t_max = tmax
                    tw = time.time()
                    o = simulate_script(sc, e)
                    wall = time.time() - tw
                    live = False
                    res["ret"] = {"nsteps": nsteps, "tmax": tmax, "dt": dt, "wall": round(wall, 3), "rate": steps / el,
                                  "t": [float(v) for v in o.t.value], "nsamples": int(o.nsamples()), "is_complete_after": bool(e.is_complete())}
                elif k == "drive":
                    T, U, X, C = [], [], [], []
                    samples = set(c.get("samples", []))
                    want_state = c.get("state", False)
                    size = c.get("size", 0)
                    buf = (ctypes.c_double * max(size, 1))()
                    n = 0
                    via_n = c.get("via") == "iterate_n"
                    while n < c["max"]:
                        u = bool(e.iterate_n(1)) if via_n else bool(e.iterate())
                        n += 1
                        U.append(u)
                        C.append(bool(e.is_complete()))
                        T.append(float(lib.engineexport_get_time()))
                        if want_state:
                            lib.engineexport_get_state(buf)
                            X.append([float(buf[i]) for i in range(size)])
                        if n in samples:
                            e.sample()
                        if not u and not c.get("past_end", 0):
                            break
                        if not u:
                            c["past_end"] -= 1
                    res["ret"] = {"T": T, "U": U, "X": X, "C": C, "progress": float(e.get_progress())}
                else:
                    raise RuntimeError("unknown call " + k)
                if c.get("peek"):
                    res["T"] = float(lib.engineexport_get_time())
                if c.get("peek_state"):
                    size = c["peek_state"]
                    buf = (ctypes.c_double * max(size, 1))()
                    lib.engineexport_get_state(buf)
                    res["X"] = [float(buf[i]) for i in range(size)]
            except Exception as ex:  # noqa  (Python-level exception: "raised")
                res["raised"] = type(ex).__name__ + ": " + str(ex)[:200]
            res["wall"] = round(time.time() - t0, 4)
            out("R", res)
        # leave the library clean for the next job of this child
        if live:
            alive = [x for x in engines if x is not None] or [mk(job["engines"][0])]
            alive[0]._lib.engineexport_finalize()
        out("J", str(job["id"]))


if __name__ == "__main__":
    main()
