"""Shared machinery of the lifecycle checks C08-C11: generators of valid scripts (from the repository's own
dictionary forms), the sandboxed runner of call histories on the real engine (life_child.py), and the
translation of an observed history into the model's `lifecycle` operation."""
import json, os, subprocess, sys, tempfile, time, math
from concurrent.futures import ThreadPoolExecutor
from fractions import Fraction
import common
from common import rstr, frac

HERE = os.path.dirname(os.path.abspath(__file__))
POLICIES = ["on_t_sample", "on_iteration", "on_interval", "no_sampling"]
OPTIONS = ["euler", "tauleap", "gillespie"]
TIME_UNITS = ["h", "min", "s", "ds", "cs", "ms", "µs"]
TIME_SI = {"h": Fraction(3600), "min": Fraction(60), "s": Fraction(1), "ds": Fraction(1, 10), "cs": Fraction(1, 100),
           "ms": Fraction(1, 1000), "µs": Fraction(1, 10 ** 6)}


# ---------------------------------------------------------------------------------------------
# running histories on the real engine, sandboxed
# ---------------------------------------------------------------------------------------------
def child_env(kind="plain", extra=None):
    env = dict(os.environ)
    env.update(extra or {})
    env["PYTHONPATH"] = os.path.join(common.REPO, "src") + os.pathsep + HERE
    if kind == "asan":
        rc, out = common.run(["g++", "-print-file-name=libasan.so"])
        env["LD_PRELOAD"] = out.strip()
        env["ASAN_OPTIONS"] = "detect_leaks=0:abort_on_error=1:halt_on_error=1"
        env["UBSAN_OPTIONS"] = "halt_on_error=1:abort_on_error=1:print_stacktrace=0"
    return env


def _run_chunk(so, jobs, timeout, kind, stall=None, env_extra=None):
    """one child; returns (per-job results, finished jobs, status, last begun call, stderr tail, wall).
    `stall`: kill the child when it prints nothing for that many seconds (a call that does not return)"""
    d = tempfile.mkdtemp(prefix="life_jobs_")
    try:
        spec = os.path.join(d, "jobs.json")
        with open(spec, "w") as f:
            json.dump({"so": so, "jobs": jobs}, f)
        outp = os.path.join(d, "out.txt")
        errp = os.path.join(d, "err.txt")
        t0 = time.time()
        with open(outp, "w") as fo, open(errp, "w") as fe:
            p = subprocess.Popen([sys.executable, "-W", "ignore", os.path.join(HERE, "life_child.py"), spec], stdout=fo, stderr=fe,
                                 env=dict(child_env(kind, env_extra), TMPDIR=d))     # the child's temporary files die with this directory
            status = None
            last_size, last_change = -1, time.time()
            started = False
            while status is None:
                try:
                    rc = p.wait(timeout=0.05)
                    status = "ok" if rc == 0 else "crash:%d" % rc
                    break
                except subprocess.TimeoutExpired:
                    pass
                now = time.time()
                try:
                    sz = os.path.getsize(outp)
                except OSError:
                    sz = 0
                if sz != last_size:
                    last_size, last_change = sz, now
                    started = started or sz > 0
                limit = stall if (stall is not None and started) else None
                if now - t0 > timeout or (limit is not None and now - last_change > limit):
                    p.kill()
                    p.wait()
                    status = "timeout"
        wall = time.time() - t0
        lines = open(outp, encoding="utf-8", errors="replace").read().splitlines()
        err = open(errp, encoding="utf-8", errors="replace").read()[-1500:]
    finally:
        import shutil
        shutil.rmtree(d, ignore_errors=True)
    res = {}
    done = set()
    last_b = None
    for ln in lines:
        if ln.startswith("R "):
            try:
                r = json.loads(ln[2:])
            except ValueError:
                continue
            res.setdefault(r["job"], []).append(r)
            last_b = None
        elif ln.startswith("B "):
            jid, ci = ln[2:].rsplit(" ", 1)
            last_b = (jid, int(ci))
        elif ln.startswith("J "):
            done.add(ln[2:].strip())
    return res, done, status, last_b, err, wall


def run_jobs(jobs, kind="plain", per_job_timeout=20.0, chunk=12, parallel=6, stall=None, env_extra=None):
    """run every job (see life_child.py) in sandboxed children; returns {job id: {"results": [...],
    "status": "ok" | "crash:<rc>" | "timeout", "at": call index or None, "stderr": tail}}"""
    so = common.build_engine(kind)
    for j in jobs:
        j["id"] = str(j["id"])
    by_id = {j["id"]: j for j in jobs}
    final = {}
    queue = [jobs[i:i + chunk] for i in range(0, len(jobs), chunk)]

    def work(ch):
        out = {}
        pending = list(ch)
        while pending:
            budget = 15.0 + sum(j.get("timeout", per_job_timeout) for j in pending)
            res, done, status, last_b, err, wall = _run_chunk(so, pending, budget, kind, stall, env_extra)
            nxt = []
            failed = None
            for j in pending:
                jid = j["id"]
                if jid in done:
                    out[jid] = {"results": res.get(jid, []), "status": "ok", "at": None, "stderr": ""}
                elif failed is None and status != "ok" and (last_b is not None and last_b[0] == jid or (jid in res) or True):
                    # the first job not finished is the one that failed
                    at = last_b[1] if (last_b is not None and last_b[0] == jid) else (len(res.get(jid, [])) if jid in res else None)
                    where = "call" if (last_b is not None and last_b[0] == jid) else "between-calls"
                    out[jid] = {"results": res.get(jid, []), "status": status, "at": at, "where": where, "stderr": err, "wall": wall}
                    failed = jid
                else:
                    nxt.append(j)
            if status == "ok" and nxt:
                # child exited normally but did not report every job: treat as tooling failure
                raise common.CheckBroken("life_child finished without completing jobs %s; stderr: %s" % ([j["id"] for j in nxt][:3], err))
            pending = nxt
        return out

    if parallel > 1 and len(queue) > 1:
        with ThreadPoolExecutor(max_workers=parallel) as ex:
            for out in ex.map(work, queue):
                final.update(out)
    else:
        for ch in queue:
            final.update(work(ch))
    return final


# ---------------------------------------------------------------------------------------------
# generators (every random choice from the rng given)
# ---------------------------------------------------------------------------------------------
# no autocatalytic loop (e.g. "B -> A + A" with "A -> B"): exponential growth leaves the recorded size assumption
# (amounts / Poisson counts below 2^31, DESIGN §4) within a run, and std::poisson_distribution<int> does not return then
EQS = ["A -> ", " -> A", "A -> B", "A + B -> C", "2 A -> B", "B -> A", "A + B -> ", "C -> B", "B -> C", "C -> A + B"]


# "many reactions, few species": more directed reactions (2 per reversible Reaction) than 6 * n_species, so that every size
# that depends on n_reactions / n_species / the slot count is exercised with n_reactions > 6 n_species.  No reaction whose
# reverse closes an autocatalytic loop (size assumption).
EQS_1 = ["A -> ", " -> A", "2 A -> "]
EQS_2 = ["A -> B", "A + B -> ", "A -> ", " -> B", "B -> ", "2 A -> ", "2 B -> ", " -> A"]


def gen_system(rng, stochastic, space_kind=None, small=True, static=False, degenerate=False, sub_molecule=False, dt=0.01, many_reactions=False):
    """an rdsystem dictionary; `static`: no reaction, no diffusion (every state equals the initial one);
    `degenerate`: size-1 grids / periodic axes of length 1-2 / isolated nodes, self-loops, parallel edges"""
    nsp = rng.randint(1, 3) if not many_reactions else rng.choice([1, 1, 2])
    labels = ["A", "B", "C"][:nsp]
    nenv = rng.choice([1, 1, 2])
    envs = ["a", "b"][:nenv]
    species = []
    for l in labels:
        sp = {"label": l, "density": 0}
        if not static:
            # fractions of the stability bound (geometry / dt); scaled below once the space is known, so that the explicit
            # schemes stay bounded (amounts beyond 2^31 are outside the recorded size assumption, DESIGN §4)
            D = rng.choice([0, 0.5, 1.0, 2.0, 0.25])
            if nenv == 2 and rng.random() < 0.4:
                D = {"a": D, "b": rng.choice([0, 0.5, 3.0])}
            sp["D"] = D
        else:
            sp["D"] = 0
        if rng.random() < 0.15:
            sp["chstt"] = True if nenv == 1 or rng.random() < 0.5 else {"b": True}
        species.append(sp)
    reactions = []
    if many_reactions and not static:
        for _ in range(rng.randint(4, 6) if nsp == 1 else rng.randint(7, 9)):
            reactions.append({"eq": rng.choice(EQS_1 if nsp == 1 else EQS_2), "k+": rng.choice([0.05, 0.3, 1.0]), "k-": rng.choice([0.1, 0.7])})
    elif not static:
        for _ in range(rng.randint(0, 3)):
            eq = rng.choice(EQS)
            used = set(ch for ch in eq if ch in "ABC")
            if not used <= set(labels):
                continue
            r = {"eq": eq, "k+": rng.choice([0.05, 0.3, 1.0, 0.0])}
            if rng.random() < 0.4:
                r["k-"] = rng.choice([0.1, 0.7])
            if nenv == 2 and rng.random() < 0.3:
                r["k+"] = {"a": 0.4, "b": 0}
            reactions.append(r)
    net = {"species": species, "reactions": reactions, "environments": envs}
    kind = space_kind or rng.choice(["grid", "graph"])
    if kind == "grid":
        if degenerate:
            w, h, d = rng.choice([(1, 1, 1), (2, 1, 1), (1, 2, 1), (1, 1, 2), (2, 2, 1), (1, 1, 1), (2, 1, 2), (3, 1, 1)])
            bc = {ax: "periodical" for ax in "xyz" if rng.random() < 0.7}
        else:
            w, h, d = rng.randint(1, 3), rng.randint(1, 3), rng.choice([1, 1, 2])
            bc = {ax: "periodical" for ax in "xyz" if rng.random() < 0.3}
        n = w * h * d
        space = {"type": "grid", "w": w, "h": h, "d": d, "cell_volume": rng.choice([1.0, 0.125, 8.0]),
                 "cell_env": [rng.randrange(nenv) for _ in range(n)], "boundary_conditions": bc}
    else:
        n = rng.randint(1, 5) if not degenerate else rng.randint(1, 4)
        nodes = [{"volume": rng.choice([1.0, 0.125, 8.0, 0.015625]), "environment": rng.randrange(nenv)} for _ in range(n)]
        edges = []
        ne = rng.randint(0, n + 1)
        for _ in range(ne):
            i, j = rng.randrange(n), rng.randrange(n)
            if i == j and not degenerate:
                continue
            edges.append({"nodes": [i, j], "surface": rng.choice([0.3, 1.0, 0.1]), "distance": rng.choice([0.5, 1.0, 0.75])})
        if degenerate and edges and rng.random() < 0.6:
            edges.append(dict(edges[0]))      # parallel edge
        space = {"type": "graph", "nodes": nodes, "edges": edges}
    # scale the diffusion coefficients: (number of slots) * kd * dt <= 0.3 with kd <= D / scale
    if kind == "grid":
        scale = space["cell_volume"] ** (2.0 / 3.0) / 6.0
    else:
        vmin = min(nd["volume"] for nd in nodes)
        worst = max([e["surface"] / e["distance"] for e in edges] + [1.0])
        scale = vmin / worst / max(1, 2 * len(edges))
    dmax = 0.3 * scale / dt / 3.0
    for sp in species:
        if isinstance(sp.get("D"), dict):
            sp["D"] = {k: v * dmax for k, v in sp["D"].items()}
        elif "D" in sp:
            sp["D"] = sp["D"] * dmax
    state = []
    for s in range(nsp):
        for c in range(n):
            if sub_molecule:
                v = rng.choice([0.0, 0.3, 0.25, 0.5, 0.1])
            elif stochastic:
                v = rng.choice([0, 1, 2, 5, 12, 3.5, 0.4, 40]) if not static else float(1 + s * 16 + c)
            else:
                v = rng.choice([0, 1.5, 2.25, 10, 0.125, 7]) if not static else float(1 + s * 16 + c) / 4
            state.append(v)
    return {"network": net, "space": space, "state": state}, nsp, n


def gen_tsamples(rng, dt, tmax_hint):
    """sorted request lists: duplicates, clusters inside one step, starting after 0, ending before / after t_max, empty tails"""
    style = rng.choice(["grid", "cluster", "dups", "late_start", "beyond", "single0", "sparse", "empty"])
    nsteps = max(1, int(round(tmax_hint / dt)))
    if style == "grid":
        k = rng.randint(1, 6)
        ts = [i * k * dt for i in range(0, nsteps // k + 1)]
    elif style == "cluster":
        base = rng.randint(0, nsteps) * dt
        ts = sorted([0.0] * rng.randint(0, 1) + [base + dt * f for f in (0.25, 0.5, 0.75)] + [base + 2.5 * dt])
    elif style == "dups":
        a = rng.randint(0, nsteps) * dt
        ts = sorted([a, a, a + dt * 0.5, a + dt * 0.5, a + 3 * dt])
    elif style == "late_start":
        ts = [dt * (rng.randint(1, nsteps) + 0.5) + i * dt * rng.randint(1, 3) for i in range(rng.randint(1, 4))]
        ts = sorted(ts)
    elif style == "beyond":
        ts = [0.0, tmax_hint * 0.5, tmax_hint * 1.5, tmax_hint * 3]
    elif style == "single0":
        ts = [0.0]
    elif style == "sparse":
        ts = sorted(rng.uniform(0, tmax_hint * 1.2) for _ in range(rng.randint(1, 5)))
    else:
        ts = []
    return [float(t) for t in ts], style


def gen_script(rng, option, space_kind=None, dyadic=None, policy=None, static=False, degenerate=False, sub_molecule=False,
               units=True, max_steps=120, mode=None, zero_tmax=None, quantity=None, many_reactions=False, huge_ratio=False, nearmiss=False,
               refused_edits=False, tsample_after=False, chem_file=False, refuse_space=False, default_tmax=False, exact_tie=False):
    """(script description for life_child, info) — a VALID script.  `units`: True (half of the scripts state their time
    quantities in their own units and use a units system with another time unit and a quantity unit that may differ from
    molecule), False, or "force"; `quantity`: force that quantity unit.
    info["expect"]: the time quantities in ENGINE units computed here from the values in seconds (independent of the
    package's unit conversion)"""
    stochastic = option != "euler"
    dyadic = rng.random() < 0.6 if dyadic is None else dyadic
    if dyadic:
        dt = 2.0 ** (-rng.randint(2, 7))
    else:
        dt = rng.choice([0.01, 0.003, 0.07, 0.0123, 0.1])
    if exact_tie:
        # the clock lands EXACTLY on t_max (dyadic dt, t_max = n dt): that step is not beyond t_max, one more follows
        dyadic, units, zero_tmax = True, False, False
        dt = rng.choice([0.125, 0.5, 1.0, 0.25])
        max_steps = min(max_steps, 12)
    if nearmiss:
        # requested times i*dt (products) against a clock that ACCUMULATES dt: some steps miss their request by one ulp
        # from below (0.1 eight times is 0.7999999999999999 < 0.8), so the covering record is the NEXT step
        dyadic, dt, policy, units = False, rng.choice([0.1, 0.01, 0.07, 0.003]), "on_t_sample", False
    if huge_ratio:
        # t / sampling_interval beyond 2^31 within a handful of steps: dt = 1 s, interval around a nanosecond
        dyadic, dt, policy, units, zero_tmax = True, 1.0, "on_interval", False, False
    system, nsp, n = gen_system(rng, stochastic, space_kind, static=static, degenerate=degenerate, sub_molecule=sub_molecule, dt=dt,
                                many_reactions=many_reactions)
    if huge_ratio:
        for r in system["network"]["reactions"]:
            r["k+"] = 0.05 if not isinstance(r["k+"], dict) else {"a": 0.05, "b": 0}
            if "k-" in r:
                r["k-"] = 0.02
    nsteps = rng.randint(1, max_steps) if not huge_ratio else rng.randint(3, 6)
    tmax = dt * nsteps if rng.random() < 0.5 else dt * (nsteps + rng.choice([0.25, 0.5, 0.9]))
    policy = policy or rng.choice(POLICIES)
    r_zero = rng.random() < 0.06
    zero_tmax = r_zero if zero_tmax is None else zero_tmax
    ts, style = gen_tsamples(rng, dt, tmax)
    if exact_tie:
        tmax = dt * nsteps
    if nearmiss:
        nsteps = max(nsteps, 25)
        tmax = dt * nsteps + dt * 0.5
        ts, style, zero_tmax = [i * dt for i in range(nsteps + 1)], "multiples", False
    if zero_tmax:
        tmax = 0.0
    kw = {"t_sample": ts, "time_step": dt, "sampling_policy": policy, "rng_seed": rng.randint(0, 2 ** 31 - 1)}
    explicit_tmax = rng.random() < 0.6 or not ts or option == "gillespie" or zero_tmax
    if (default_tmax or tsample_after) and ts and not zero_tmax:
        explicit_tmax = False
    if exact_tie:
        explicit_tmax = True
    if explicit_tmax:
        kw["t_max"] = tmax
    vary_units = bool(units) and (units == "force" or rng.random() < 0.5)
    secs = {"time_step": dt, "t_max": kw.get("t_max"), "t_sample": list(ts)}
    if huge_ratio:
        kw["sampling_interval"] = rng.choice([1e-9, 1e-10, 5e-10, 2.0 ** -31])
        kw["t_max"] = tmax if tmax > 0 else 4.0
        secs["t_max"] = kw["t_max"]
        explicit_tmax = True
    elif policy == "on_interval" or rng.random() < 0.3:
        if dyadic and not vary_units:
            kw["sampling_interval"] = rng.choice([dt, 2 * dt, 2.5 * dt, 0.25 * dt, 7 * dt, dt * 1.5])
        else:
            # no (near-)coincidence of steps and multiples, so that floor(t/interval) is unambiguous in doubles
            kw["sampling_interval"] = dt * rng.choice([1.4142135623, 0.6180339887, 2.7182818284, 7.3890560989, 1.0001000123])
    if mode is None:
        mode = rng.choice(["auto", "auto", "none", "redist", "Poisson"]) if stochastic else rng.choice(["auto", "none", "none", "redist", "Poisson"])
    kw["init_state_processing"] = mode
    tu = "s"
    su = "s"
    form = "plain"
    if "sampling_interval" in kw:
        secs["sampling_interval"] = kw["sampling_interval"]
    if vary_units:
        # time quantities stated in their own units, script units system with another time unit
        tu = rng.choice(TIME_UNITS)
        su = rng.choice(TIME_UNITS)
        kw["units_system"] = {"time": su, "space": rng.choice(["µm", "nm", "mm"]), "quantity": quantity or rng.choice(["molecule", "mol", "µmol"])}
        for key in ("time_step", "t_max", "sampling_interval"):
            if key in kw:
                kw[key] = "%r %s" % (kw[key] * float(1 / TIME_SI[tu]), tu)
        form = rng.choice(["unitarray", "unitarray", "dict", "strings"])
        kw["t_sample"] = {"__unitarray__": [t * float(1 / TIME_SI[tu]) for t in ts], "units": tu, "form": form}
    # engine units = the script's units system with the quantity unit replaced: times in `su`
    f = float(1 / TIME_SI[su])
    expect = {"dt": secs["time_step"] * f, "tsamples": [t * f for t in secs["t_sample"]],
              "tmax": (secs["t_max"] * f if secs["t_max"] is not None else (secs["t_sample"][-1] * f if secs["t_sample"] else None)),
              "interval": (secs["sampling_interval"] * f if "sampling_interval" in secs else 1.0), "time_unit": su, "stated_in": tu}
    # the TYPE of the seed: everything int() accepts is a seed (also through the dictionary form of a script)
    r = rng.random()
    if r < 0.4:
        kw["__seed_as__"] = rng.choice(["str", "np_int64", "array0", "float"])
    if r < 0.2 or 0.4 <= r < 0.5:
        kw["__from_dict__"] = True
    S_extra = {}
    if refused_edits:
        # assignments that must raise; the caller catches the exception and goes on with the (unchanged) script
        S_extra["edits"] = [rng.choice([{"op": "refuse", "attr": "sampling_policy", "value": rng.choice(["on_sample", "every_step", "", "on_tsample"])},
                                        {"op": "refuse", "attr": "sampling_policy", "value": "on_sample"},
                                        {"op": "refuse", "attr": "time_step", "value": "fast"},
                                        {"op": "refuse", "attr": "t_sample", "value": {"__unitarray__": [0.0, 1.0], "units": "mol"}},
                                        {"op": "refuse", "attr": "init_state_processing", "value": "floor_all"}])
                            for _ in range(rng.randint(1, 2))]
    if tsample_after and ts:
        # constructed with another request list (longer or shorter horizon), the real one assigned afterwards
        last = expect["tsamples"][-1] if expect["tsamples"] else 1.0
        kw["__tsample_first__"] = [0.0, (last if last > 0 else 1.0) * rng.choice([0.5, 2.0, 3.0])]
    if chem_file:
        S_extra["system_ops"] = [{"op": "chem_file", "layout": rng.choice(["rows", "rows", "lines"]), "newline": rng.random() < 0.5, "crlf": rng.random() < 0.2}]
    if refuse_space:
        S_extra.setdefault("system_ops", []).append({"op": "refuse_space", "beyond": rng.choice([0, 0, 3])})
    info = {"option": option, "policy": policy, "dyadic": dyadic and tu == "s" and "units_system" not in kw, "style": style, "nsp": nsp, "n": n,
            "space": system["space"]["type"], "mode": mode, "static": static, "explicit_tmax": explicit_tmax, "units": "units_system" in kw,
            "n_directed_reactions": 2 * len(system["network"]["reactions"]), "many_reactions": many_reactions, "huge_ratio": huge_ratio,
            "seed_as": kw.get("__seed_as__", "int"), "from_dict": bool(kw.get("__from_dict__")) and "units_system" not in kw and not isinstance(kw["t_sample"], dict),
            "expect": expect, "ts_form": form, "quantity": (kw["units_system"]["quantity"] if "units_system" in kw else "molecule")}
    info.update(refused_edits=bool(S_extra.get("edits")), tsample_after="__tsample_first__" in kw, system_ops=[o["op"] for o in S_extra.get("system_ops", [])])
    return dict({"system": system, "kw": kw}, **S_extra), info


# ---------------------------------------------------------------------------------------------
# observed history -> model operation
# ---------------------------------------------------------------------------------------------
def script_model_json(meta, policy, space_kind, clock=(), stop=None, raises=False):
    """the model's script object from the engine-unit values the child reported at setup"""
    return {"space": 0 if space_kind == "grid" else 1, "policy": policy,
            "tsamples": [rstr(v) for v in meta.get("tsamples", [])], "interval": rstr(meta.get("interval", 1.0)),
            "tmax": rstr(meta.get("tmax", -1.0)), "dt": rstr(meta.get("dt", 1.0)), "clock": [rstr(v) for v in clock],
            "stop": stop, "size": int(meta.get("size", 0)), "raises": bool(raises)}


def init_failures(x):
    """from the record of the wrapped engineexport_initialize_* call of a setup / simulate result: every buffer has the
    length of the count passed alongside, and the native code accepted the script (return code 0).
    Returns [(key, what, impl, expected)]"""
    rec = x.get("init")
    bad = []
    if not rec:
        return bad
    for b in rec.get("bad", []):
        bad.append(("buffer-length:%s" % b["arg"], "%s is handed a %s buffer of %r entries with the count %r: the engine reads %r entries"
                    % (rec["fn"], b["arg"], b["buffer_length"], b["count_passed"], b["count_passed"]), b["buffer_length"], b["count_passed"]))
    for b in rec.get("bad_values", []):
        bad.append(("bad-index:%s" % b["arg"], "%s is handed %s = %r, which the engine uses as a subscript below %r" % (rec["fn"], b["arg"], b["value"], b["limit"]),
                    b["value"], "< %r" % b["limit"]))
    if rec.get("inspect_error"):
        bad.append(("init-arguments", "the arguments of %s could not be inspected (%s): signature changed?" % (rec["fn"], rec["inspect_error"]), rec["inspect_error"], None))
    if rec.get("rc", 0) != 0 and "raised" not in x:
        bad.append(("native-init-rc", "%s returned error code %d for a script the Python setters accepted, and setup() went on (the object is "
                    "used without having been initialised)" % (rec["fn"], rec["rc"]), rec["rc"], 0))
    return bad


def refetch_failures(calls, results):
    """returned objects are the caller's: after the caller modified the trajectory object it was given (mutate_out), a
    further fetch from the same engine is what it would have been — same script, system, units, shape as the deep snapshot
    of the fetch before the modification (the data may have grown with further steps).  Returns [(index, key, what, impl, expected)]"""
    bad = []
    last = {}        # obj -> (index, ret) of the last fetch
    dirty = {}       # obj -> what was modified since
    for i, (c, x) in enumerate(zip(calls, results)):
        k = c["call"]
        o = c.get("obj", 0)
        if k == "setup":
            last.pop(o, None); dirty.pop(o, None)
        elif k == "mutate_out":
            dirty[o] = c.get("what")
        elif k == "get_output" and isinstance(x.get("ret"), dict):
            ret = x["ret"]
            if o in last and o in dirty:
                prev = last[o][1]
                for f in ("nspecies", "ncells"):
                    if ret.get(f) != prev.get(f):
                        bad.append((i, "output-depends-on-returned-object", "after the caller modified the trajectory it was given (%s), the next get_output() has %s = %r instead of %r"
                                    % (dirty[o], f, ret.get(f), prev.get(f)), ret.get(f), prev.get(f)))
                        break
                else:
                    if ret.get("snap") != prev.get("snap"):
                        diff = [kk for kk in (prev.get("snap") or {}) if (ret.get("snap") or {}).get(kk) != prev["snap"].get(kk)]
                        bad.append((i, "output-depends-on-returned-object", "after the caller modified the trajectory it was given (%s), the next get_output() differs in %s"
                                    % (dirty[o], diff[:3]), {kk: (ret.get("snap") or {}).get(kk) for kk in diff[:2]}, {kk: prev["snap"].get(kk) for kk in diff[:2]}))
                    elif ret.get("nsamples") == prev.get("nsamples") and ret.get("hash") != prev.get("hash"):
                        bad.append((i, "output-depends-on-returned-object", "after the caller modified the trajectory it was given (%s), the same fetch gives other data" % dirty[o],
                                    ret.get("hash"), prev.get("hash")))
            last[o] = (i, ret)
    return bad


def edit_failures(x):
    """assignments that must be refused (reported by the child as "edits"): each one raised"""
    bad = []
    for ed in x.get("edits", []) or []:
        if ed["op"] in ("refuse", "refuse_space") and not ed.get("raised"):
            bad.append(("edit-not-refused", "%s = %r was accepted" % (ed.get("attr", "system.space"), ed.get("value", "<space naming an undefined environment>")), None, "raises"))
        if ed["op"] == "chem_file" and ed.get("len") != ed.get("expected_len"):
            bad.append(("text-array-file", "a chemostat map of %r values written to a text file over several lines is loaded as %r values" % (ed.get("expected_len"), ed.get("len")),
                        ed.get("len"), ed.get("expected_len")))
    return bad


def fmatch(a, b, f=1.0, rel=1e-12):
    """double `a` equals double `b` times the conversion factor `f` (exactly, or within `rel`); non-finite values
    (a diverged Euler run) must agree in kind"""
    if not (math.isfinite(a) and math.isfinite(b)):
        return (math.isnan(a) and math.isnan(b)) or a == b * f or (math.isnan(a) and not math.isfinite(b * f))
    p = b * f
    if a == p:
        return True
    if not math.isfinite(p):
        return False
    return common.close(a, frac(b) * frac(f), rel=rel)
