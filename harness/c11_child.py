"""Sandboxed worker of the CALLER-KEEPS-ITS-SCRIPT stream of C11 (used by props/c11.py only).

The caller builds RDScript objects, hands one to engine.setup(), and then goes on using ITS OWN script object while the
simulation is open (prepares the next run with it: assigns another system — fewer / more cells or species —, another request
list, another units system), then makes further lifecycle calls on the engine (iterate, sample, get_output, finalize).
Every call is lifecycle-respecting; the script object is the caller's.

Observation point (the property's own): the native calls that WRITE into a caller-provided buffer
(engineexport_get_trajectory / get_tsample / get_state) are wrapped; the length of the buffer handed over is compared with
the number of doubles the engine writes (its own n_samples and the n_meshes*n_species it was initialised with, both taken
from the native side / the wrapped initialisation call).  On the plain / hardened builds a call with a too small buffer is
NOT performed (it would corrupt the heap of the child) and is reported; on the sanitizer build it is performed, so that the
sanitizer reports the overflow itself.

usage: c11_child.py jobs.json
jobs.json = {"so": path, "guard": bool, "jobs": [{"id", "option", "scripts": [{"system": <rdsystem dict>, "kw": {...}}, ...], "calls": [...]}]}
call = {"call": "setup", "script": k} | {"call": "iterate"} | {"call": "iterate_n", "n": n} | {"call": "run", "ms": m} | {"call": "sample"}
     | {"call": "get_progress"} | {"call": "get_output"} | {"call": "finalize"}
     | {"call": "edit_input", "script": k, "what": "system" | "t_sample" | "units" , "from": m}
       (the caller's script object k takes the system / the request list / the units system of script description m)
lines:  B <job> <callindex>   before a call;   R <json>   result of that call;   J <job>   job finished
"""
import sys, json, ctypes, hashlib, warnings
warnings.filterwarnings("ignore")

WRITERS = {"engineexport_get_trajectory": "nsamples*size", "engineexport_get_tsample": "nsamples", "engineexport_get_state": "size"}


def main():
    spec = json.load(open(sys.argv[1]))
    import numpy as np
    import strengths as st
    from strengths.librdengine import LibRDEngine
    lib_path = spec["so"]
    guard = spec.get("guard", True)

    class LibProxy(object):
        """the native library; the initialisation calls record the sizes the engine is given, the calls that write into a
        caller-provided buffer record the length of that buffer against what the engine writes"""
        def __init__(self, lib):
            object.__setattr__(self, "_real", lib)
            object.__setattr__(self, "size", None)
            object.__setattr__(self, "log", [])

        def __getattr__(self, name):
            lib = object.__getattribute__(self, "_real")
            real = getattr(lib, name)
            proxy = self
            if name in ("engineexport_initialize_grid", "engineexport_initialize_graph"):
                def init(*args):
                    ints = [int(a.value) if isinstance(a, ctypes.c_int) else None for a in args[:4]]
                    try:
                        size = ints[0] * ints[1] * ints[2] * ints[3] if name.endswith("grid") else ints[0] * ints[1]
                    except TypeError:
                        size = None
                    rc = real(*args)
                    object.__setattr__(proxy, "size", size)
                    return rc
                return init
            if name in WRITERS:
                def write(buf):
                    size = object.__getattribute__(proxy, "size")
                    ns = int(lib.engineexport_get_nsamples())
                    need = {"nsamples*size": ns * size if size is not None else None, "nsamples": ns, "size": size}[WRITERS[name]]
                    got = len(buf) if hasattr(buf, "__len__") else None
                    rec = {"fn": name, "buffer_length": got, "engine_writes": need, "nsamples": ns, "size": size}
                    object.__getattribute__(proxy, "log").append(rec)
                    if got is not None and need is not None and got < need:
                        rec["too_small"] = True
                        if guard:
                            rec["skipped"] = True
                            return 0
                        # announce before the sanitizer stops the process
                        sys.stdout.write("W " + json.dumps(rec) + "\n"); sys.stdout.flush()
                    return real(buf)
                return write
            return real

        def __setattr__(self, name, value):
            setattr(object.__getattribute__(self, "_real"), name, value)

    def build(S):
        kw = {k: v for k, v in S["kw"].items() if not k.startswith("__")}
        us = kw.get("units_system")
        if isinstance(us, dict):
            kw["units_system"] = st.UnitsSystem(**us)
        return st.RDScript(st.rdsystem_from_dict(S["system"]), **kw)

    def out(tag, obj):
        sys.stdout.write(tag + " " + (json.dumps(obj) if not isinstance(obj, str) else obj) + "\n")
        sys.stdout.flush()

    for job in spec["jobs"]:
        option = job["option"]
        e = LibRDEngine(LibProxy(ctypes.CDLL(lib_path)), option=option, requires_molecules=(option != "euler"))
        lib = e._lib
        scripts = {}
        live = False
        for ci, c in enumerate(job["calls"]):
            out("B", "%s %d" % (job["id"], ci))
            res = {"job": job["id"], "i": ci}
            del object.__getattribute__(lib, "log")[:]
            try:
                k = c["call"]
                if k == "setup":
                    si = c["script"]
                    if si not in scripts:
                        scripts[si] = build(job["scripts"][si])
                    sc = scripts[si]
                    res["meta"] = {"size": int(sc.system.state_size()), "ncells": int(sc.system.space.size()), "nspecies": len(sc.system.network.species),
                                   "n_requests": len(sc.t_sample.value)}
                    e.setup(sc)
                    live = True
                    res["ret"] = None
                    res["native_size"] = object.__getattribute__(lib, "size")
                elif k == "edit_input":
                    sc = scripts[c["script"]]
                    m = c["from"]
                    if m not in scripts:
                        scripts[m] = build(job["scripts"][m])
                    src = scripts[m]
                    if c["what"] == "system":
                        sc.system = src.system
                    elif c["what"] == "t_sample":
                        sc.t_sample = src.t_sample
                    elif c["what"] == "units":
                        sc.units_system = st.UnitsSystem(space="mm", time="h", quantity="mol")
                    else:
                        raise RuntimeError("unknown edit " + c["what"])
                    res["ret"] = {"size_now": int(sc.system.state_size()), "n_requests_now": len(sc.t_sample.value)}
                elif k == "iterate":
                    res["ret"] = bool(e.iterate())
                elif k == "iterate_n":
                    res["ret"] = bool(e.iterate_n(c["n"]))
                elif k == "run":
                    res["ret"] = bool(e.run(c["ms"]))
                elif k == "sample":
                    e.sample()
                    res["ret"] = None
                elif k == "get_progress":
                    res["ret"] = float(e.get_progress())
                elif k == "get_output":
                    o = e.get_output()
                    t = np.ascontiguousarray(np.asarray(o.t.value, dtype=float))
                    d = np.ascontiguousarray(np.asarray(o.data.value, dtype=float))
                    res["ret"] = {"nt": int(t.size), "nd": int(d.size), "hash": hashlib.sha1(t.tobytes() + b"|" + d.tobytes()).hexdigest(),
                                  "ncells": int(o.system.space.size()), "nspecies": len(o.system.network.species)}
                elif k == "finalize":
                    live = False
                    e.finalize()
                    res["ret"] = None
                else:
                    raise RuntimeError("unknown call " + k)
            except Exception as ex:  # noqa  (Python-level exception: "raised")
                res["raised"] = type(ex).__name__ + ": " + str(ex)[:200]
            res["writes"] = list(object.__getattribute__(lib, "log"))
            out("R", res)
        if live:
            lib.engineexport_finalize()
        out("J", str(job["id"]))


if __name__ == "__main__":
    main()
